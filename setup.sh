#!/bin/bash
# Offline setup: install the runtime-contract libraries beside the repository's interpreter.
set -e
cd "$(dirname "$0")"
if ! /venv/bin/python -c "import sys; sys.path.insert(0,'.deps'); import icontract, deal" 2>/dev/null; then
  rm -rf .deps
  PIP_NO_INDEX=1 /venv/bin/pip install -q --no-index --find-links /opt/veriftools/wheels --target .deps icontract deal >/dev/null 2>&1 || \
  PIP_NO_INDEX=1 /venv/bin/pip install -q --no-index --find-links /opt/veriftools/wheels --target .deps icontract
fi
/venv/bin/python -c "import sys; sys.path.insert(0,'.deps'); import icontract; print('icontract', icontract.__version__)"
