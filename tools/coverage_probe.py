#!/usr/bin/env python3
"""Which lines of the anchored y0 modules does a check's workload execute?  (development aid, not a check)

  /venv/bin/python tools/coverage_probe.py C05 [shard ...]     -> uncovered executable lines per anchored file

Runs the property's shard(s) in-process under sys.monitoring LINE events (DISABLE after the first hit of a line, so the
slowdown is small) and compares with the line table of every code object of the module.
"""
import importlib, json, os, sys, types

sys.path.insert(0, os.path.dirname(os.path.dirname(os.path.abspath(__file__))))
os.environ.setdefault("Y0_VERIF", "1")
repo = os.environ.get("VERIF_REPO", "/repo")
sys.path.insert(0, repo + "/src")
prop = sys.argv[1].upper()
shards = [int(x) for x in sys.argv[2:]] or [0]

hit: dict = {}
TOOL = 3
mon = sys.monitoring
mon.use_tool_id(TOOL, "covprobe")


def on_line(code, line):
    fn = code.co_filename
    if "/src/y0/" in fn:
        hit.setdefault(fn, set()).add(line)
    return mon.DISABLE


mon.register_callback(TOOL, mon.events.LINE, on_line)
mon.set_events(TOOL, mon.events.LINE)

from vmon import kernel  # noqa: E402
from vmon.runner import Ctx  # noqa: E402

mod = importlib.import_module(f"vmon.props.{prop.lower()}")
kernel.connect_hooks()
for sh in shards:
    mod.run_shard(Ctx(prop, "quick", 0, sh, 16))
mon.set_events(TOOL, 0)


def code_lines(code):
    out = set()
    for _, _, ln in code.co_lines():
        if ln is not None:
            out.add(ln)
    for c in code.co_consts:
        if isinstance(c, types.CodeType):
            out |= code_lines(c)
    return out


props = [json.loads(l) for l in open(os.path.join(os.path.dirname(os.path.dirname(os.path.abspath(__file__))), "properties.jsonl"))]
files = next(p for p in props if p["id"] == prop)["anchors"]["files"]
for f in files:
    path = os.path.join(repo, f)
    if not os.path.exists(path):
        continue
    src = open(path).read()
    lines = code_lines(compile(src, path, "exec"))
    got = hit.get(path, set())
    # docstrings / def lines execute at import time; keep only lines inside function bodies that never ran
    missing = sorted(lines - got)
    text = src.splitlines()
    missing = [ln for ln in missing if not text[ln - 1].lstrip().startswith(("def ", "class ", "@", '"""', "'''", ")"))]
    print(f"== {f}: {len(got & lines)}/{len(lines)} executable lines hit; not hit: {len(missing)}")
    # group into ranges
    rng, start, prev = [], None, None
    for ln in missing:
        if start is None:
            start = prev = ln
        elif ln <= prev + 2:
            prev = ln
        else:
            rng.append((start, prev)); start = prev = ln
    if start is not None:
        rng.append((start, prev))
    for a, b in rng[:80]:
        print(f"   {a}-{b}: {text[a - 1].strip()[:110]}")
