#!/bin/bash
# tools/sweep.sh TIER SEED [SEED..]  -- every registered check once per seed; prints one line per run plus every alarm line.
# Meant for `vp run -- tools/sweep.sh thorough 2 3` (false alarms hide in tiers/seeds never run on the unchanged tree).
cd "$(dirname "$0")/.."
tier=$1; shift
props=${VERIF_PROPS:-C01 C02 C03 C04 C05 C06 C07 C08 C09 C10 C11 C12 C13 C14 C15 C16 C17 C18 C19 C20}
for s in "$@"; do for p in $props; do
  out=$(./check $p --tier $tier --seed $s 2>&1); rc=$?
  echo "seed=$s $p rc=$rc $(echo "$out" | tail -1 | cut -c1-200)"
  [ $rc -ne 0 ] && echo "$out" | grep -E "^(VIOLATION|INCONCLUSIVE|  monitor)" | head -20
done; done
