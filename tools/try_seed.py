#!/usr/bin/env python3
"""Confirm a seeded property-breaking change and run checks against it, on a scratch worktree
OUTSIDE /repo and /verif (removed afterwards).

  tools/try_seed.py PATCH DEMO PROP[,PROP..] [--tier quick] [--no-suite]

Steps: (1) demo passes on /repo's tree; (2) patch applies to a scratch worktree of /repo HEAD;
(3) demo fails there; (4) the pinned suite still passes there (387 + the 6 baseline failures);
(5) each listed check is run with VERIF_REPO=<scratch>; its exit code and VIOLATION lines are reported.
Prints one JSON summary line at the end.
"""
import json, os, subprocess, sys, tempfile, shutil

def sh(cmd, **kw):
    return subprocess.run(cmd, shell=True, capture_output=True, text=True, **kw)

def main():
    args = [a for a in sys.argv[1:] if not a.startswith("--")]
    patch, demo, props = os.path.abspath(args[0]), os.path.abspath(args[1]), args[2].split(",")
    tier = "quick"
    if "--tier" in sys.argv:
        tier = sys.argv[sys.argv.index("--tier") + 1]
        props = [p for p in props if p != tier]
    scratch = tempfile.mkdtemp(prefix="y0seed-", dir="/tmp")
    os.rmdir(scratch)
    out = {"patch": patch, "props": props}
    try:
        r = sh(f"git -C /repo worktree add --detach {scratch} HEAD -q")
        assert r.returncode == 0, r.stderr
        r = sh(f"git -C {scratch} apply {patch}")
        if r.returncode != 0:
            r = sh(f"git -C {scratch} apply --3way {patch}")
        out["applies"] = r.returncode == 0
        if not out["applies"]:
            out["apply_error"] = r.stderr[-400:]
            return out
        env0 = dict(os.environ, PYTHONPATH="/repo/src")
        env1 = dict(os.environ, PYTHONPATH=f"{scratch}/src")
        for e in (env0, env1):
            e.pop("Y0_VERIF", None)
        d0 = subprocess.run(["/venv/bin/python", demo], capture_output=True, text=True, env=env0, cwd="/tmp", timeout=1800)
        d1 = subprocess.run(["/venv/bin/python", demo], capture_output=True, text=True, env=env1, cwd="/tmp", timeout=1800)
        out["demo_pristine_rc"], out["demo_patched_rc"] = d0.returncode, d1.returncode
        out["demo_patched_tail"] = (d1.stdout + d1.stderr)[-300:]
        if "--no-suite" not in sys.argv:
            t = subprocess.run("/venv/bin/python -m pytest -q -p no:cacheprovider --timeout=900 --continue-on-collection-errors 2>&1 | tail -1",
                               shell=True, capture_output=True, text=True, env=env1, cwd=scratch)
            out["suite"] = t.stdout.strip()
        checks = {}
        for p in props:
            c = subprocess.run(["./check", p, "--tier", tier], capture_output=True, text=True, cwd="/verif",
                               env=dict(os.environ, VERIF_REPO=scratch))
            lines = [l for l in c.stdout.splitlines() if l.startswith(("VIOLATION", "  monitor", "INCONCLUSIVE"))][:4]
            checks[p] = {"rc": c.returncode, "lines": [l[:300] for l in lines], "summary": c.stdout.strip().splitlines()[-1][:200] if c.stdout.strip() else c.stderr[-300:]}
        out["checks"] = checks
        return out
    finally:
        sh(f"git -C /repo worktree remove --force {scratch}")
        shutil.rmtree(scratch, ignore_errors=True)
        print(json.dumps(out, indent=1))

if __name__ == "__main__":
    main()
