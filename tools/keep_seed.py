#!/usr/bin/env python3
"""tools/keep_seed.py SEEDDIR(/tmp/seed/out/Cxx) LETTER PROP[,PROP..] "needs: ..."  -> /verif/seeded/<Cxx>-<LETTER>/"""
import json, os, shutil, subprocess, sys
src, letter, props, needs = sys.argv[1], sys.argv[2], sys.argv[3], sys.argv[4]
dest_letter = sys.argv[5] if len(sys.argv) > 5 else letter
pid = os.path.basename(src.rstrip("/"))
patch, demo = f"{src}/patch_{letter}.diff", f"{src}/demo_{letter}.py"
r = subprocess.run(["/venv/bin/python", "/verif/tools/try_seed.py", patch, demo, props], capture_output=True, text=True)
res = json.loads(r.stdout[r.stdout.index("{"):])
ok = res.get("applies") and res.get("demo_pristine_rc") == 0 and res.get("demo_patched_rc") not in (0, None) \
    and res.get("suite", "").startswith("6 failed, 387 passed")
dst = f"/verif/seeded/{pid}-{dest_letter}"
summary = {p: c["rc"] for p, c in res.get("checks", {}).items()}
print(pid, dest_letter, "CONFIRMED" if ok else "REJECTED", summary, "|", res.get("suite"), "| demo", res.get("demo_pristine_rc"), res.get("demo_patched_rc"))
if not ok:
    print(json.dumps(res, indent=1)[:1500])
    sys.exit(1)
os.makedirs(dst, exist_ok=True)
shutil.copy(patch, f"{dst}/patch.diff")
shutil.copy(demo, f"{dst}/demo.py")
head = subprocess.run("git -C /repo rev-parse --short HEAD", shell=True, capture_output=True, text=True).stdout.strip()
meta = {
    "property": pid, "breaks": pid, "needs_to_manifest": needs,
    "origin": "independent sub-agent given only the property text and a scratch worktree",
    "confirmed_on_repo_head": head,
    "confirmation": {"demo_on_unchanged_tree_rc": res["demo_pristine_rc"], "demo_on_changed_tree_rc": res["demo_patched_rc"],
                     "pinned_suite_on_changed_tree": res["suite"], "demo_output_tail": res["demo_patched_tail"][-300:]},
    "what_was_run": f"tools/try_seed.py {patch} {demo} {props}  (scratch worktree of /repo HEAD, removed afterwards)",
    "checks": {p: {"exit_code": c["rc"], "caught": c["rc"] == 1, "first_lines": c["lines"][:2], "summary": c["summary"]}
               for p, c in res["checks"].items()},
}
json.dump(meta, open(f"{dst}/meta.json", "w"), indent=1)
