#!/usr/bin/env python3
import json, sys, glob, os
import jsonschema
HERE = os.path.dirname(os.path.dirname(os.path.abspath(__file__)))
ok = True
def v(path, schema):
    global ok
    try:
        jsonschema.validate(json.load(open(path)), json.load(open(schema)))
        print("valid  ", path)
    except Exception as e:
        ok = False
        print("INVALID", path, str(e)[:300])
v(os.path.join(HERE, "MANIFEST.json"), "/root/.vp/MANIFEST.schema.json")
for f in sorted(glob.glob(os.path.join(HERE, "evidence", "*.json"))):
    v(f, "/root/.vp/EVIDENCE.schema.json")
sys.exit(0 if ok else 1)
