#!/usr/bin/env python3
"""Run the registered quick checks against every kept seeded change (scratch worktrees outside /repo and /verif,
removed afterwards) and rewrite seeded/RESULTS.md and the 'checks' part of each meta.json.

  tools/run_seeds.py [--tier quick] [--only C07-A,C09-B] [--jobs 4]
"""
import json, os, subprocess, sys, tempfile, shutil
from concurrent.futures import ThreadPoolExecutor

HERE = os.path.dirname(os.path.dirname(os.path.abspath(__file__)))
EXTRA = {  # checks besides the seed's own property that are worth running against it
    "C02-A": ["C01"], "C03-B": ["C04"], "C04-B": ["C14"], "C05-B": ["C06"], "C06-A": ["C05"], "C06-B": ["C07"],
    "C07-A": ["C18"], "C07-B": ["C18"], "C08-B": ["C07", "C18"], "C09-A": ["C19"], "C10-A": ["C11"], "C10-B": ["C13"],
    "C11-A": ["C10"], "C13-A": ["C10"], "C14-A": ["C02"], "C15-A": ["C04"], "C18-A": ["C07"], "C18-B": ["C07"],
    "C19-A": ["C09"], "C04-E": ["C14"], "C04-F": ["C15"], "C18-E": ["C07"], "C01-F": ["C02"],
    "C07-C": ["C18"], "C07-D": ["C18"], "C01-D": ["C02"], "C12-F": ["C11"], "C15-E": ["C04"], "C06-E": ["C05"],
    "C06-F": ["C05"], "C04-G": ["C14"], "C04-H": ["C14"], "C08-E": ["C18"], "C19-H": ["C09"], "C05-G": ["C06"],
    "C18-G": ["C07"], "C07-I": ["C14"], "C08-H": ["C18"], "C08-G": ["C07"], "C17-G": ["C14"], "C09-G": ["C17"], "C20-H": ["C14"],
    "C03-G": ["C14"], "C03-H": ["C01"], "C06-G": ["C05"], "C06-H": ["C05"], "C15-H": ["C04"], "C11-H": ["C10"],
    "C01-K": ["C02"], "C02-J": ["C01"], "C04-J": ["C14"], "C01-J": ["C03"],
    # round 6 (L, M)
    "C10-L": ["C13"], "C10-M": ["C13"], "C13-L": ["C10"], "C15-L": ["C04"], "C15-M": ["C04"], "C11-L": ["C10"],
    "C11-M": ["C10"], "C02-L": ["C01"], "C02-M": ["C01"], "C06-L": ["C07"], "C06-M": ["C05"], "C03-L": ["C01"],
    "C03-M": ["C01"], "C04-L": ["C15"], "C04-M": ["C14"], "C05-L": ["C06"], "C05-M": ["C06"], "C07-L": ["C18"],
    "C07-M": ["C18"], "C19-L": ["C09"], "C19-M": ["C09"], "C09-L": ["C19"], "C09-M": ["C19"], "C18-L": ["C07"],
    "C18-M": ["C07"], "C08-L": ["C07"], "C08-M": ["C07"], "C01-L": ["C02"], "C01-M": ["C02"],
}


def run_one(name, tier):
    d = os.path.join(HERE, "seeded", name)
    meta = json.load(open(os.path.join(d, "meta.json")))
    props = [meta["property"]] + EXTRA.get(name, [])
    if meta.get("retired"):
        return name, {"error": "retired: " + meta["retired"][:120]}
    scratch = tempfile.mkdtemp(prefix="y0seed-", dir="/tmp")
    os.rmdir(scratch)
    out = {}
    try:
        r = subprocess.run(f"git -C /repo worktree add --detach {scratch} HEAD -q && git -C {scratch} apply {d}/patch.diff",
                           shell=True, capture_output=True, text=True)
        if r.returncode != 0:
            r2 = subprocess.run(f"git -C {scratch} apply --3way {d}/patch.diff", shell=True, capture_output=True, text=True)
            if r2.returncode != 0:
                return name, {"error": "patch does not apply to the current tree: " + r2.stderr[-300:]}
        for p in props:
            c = subprocess.run(["./check", p, "--tier", tier], capture_output=True, text=True, cwd=HERE,
                               env=dict(os.environ, VERIF_REPO=scratch, VERIF_SHARDS=os.environ.get("VERIF_SHARDS", "8")))
            lines = [l[:260] for l in c.stdout.splitlines() if l.startswith(("VIOLATION", "  monitor", "INCONCLUSIVE"))][:2]
            out[p] = {"exit_code": c.returncode, "caught": c.returncode == 1, "first_lines": lines,
                      "summary": (c.stdout.strip().splitlines() or [""])[-1][:200]}
    finally:
        subprocess.run(f"git -C /repo worktree remove --force {scratch}", shell=True, capture_output=True)
        shutil.rmtree(scratch, ignore_errors=True)
    meta["checks"] = out
    meta["checks_tier"] = tier
    meta["checked_on_repo_head"] = subprocess.run("git -C /repo rev-parse --short HEAD", shell=True, capture_output=True,
                                                  text=True).stdout.strip()
    json.dump(meta, open(os.path.join(d, "meta.json"), "w"), indent=1)
    return name, out


def main():
    tier = sys.argv[sys.argv.index("--tier") + 1] if "--tier" in sys.argv else "quick"
    only = sys.argv[sys.argv.index("--only") + 1].split(",") if "--only" in sys.argv else None
    jobs = int(sys.argv[sys.argv.index("--jobs") + 1]) if "--jobs" in sys.argv else 3
    names = sorted(n for n in os.listdir(os.path.join(HERE, "seeded")) if os.path.isdir(os.path.join(HERE, "seeded", n)))
    if only:
        names = [n for n in names if n in only]
    with ThreadPoolExecutor(jobs) as ex:
        results = list(ex.map(lambda n: run_one(n, tier), names))
    for n, out in results:
        print(n, {p: ("CAUGHT" if v.get("caught") else f"rc={v.get('exit_code')}") for p, v in out.items()} if "error" not in out else out)
    # summary table over all seeds
    rows = ["| seeded change | breaks | needs to manifest | checks run (quick tier) -> verdict |", "|---|---|---|---|"]
    for n in sorted(os.listdir(os.path.join(HERE, "seeded"))):
        mp = os.path.join(HERE, "seeded", n, "meta.json")
        if not os.path.exists(mp):
            continue
        m = json.load(open(mp))
        if m.get("retired"):
            rows.append(f"| {n} | {m['property']} | {m['needs_to_manifest'][:230]} | retired: {m['retired']} |")
            continue
        verdicts = ", ".join(f"{p}: {'**caught**' if v.get('caught') else 'not caught (rc=' + str(v.get('exit_code')) + ')'}"
                             for p, v in m.get("checks", {}).items())
        rows.append(f"| {n} | {m['property']} | {m['needs_to_manifest'][:230]} | {verdicts} |")
    open(os.path.join(HERE, "seeded", "RESULTS.md"), "w").write(
        "# Seeded property-breaking changes vs the registered checks\n\n"
        "Written by tools/run_seeds.py; every change was produced by an independent sub-agent that saw only the property text,\n"
        "and was confirmed (demo passes on the unchanged tree, fails with the change; pinned suite unchanged) before it was kept.\n\n"
        + "\n".join(rows) + "\n")


if __name__ == "__main__":
    main()
