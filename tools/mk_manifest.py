#!/usr/bin/env python3
"""Regenerate MANIFEST.json from the table below (keeps it schema-valid at all times)."""
import json, os, subprocess, sys
HERE = os.path.dirname(os.path.dirname(os.path.abspath(__file__)))

CHECKS = {
 # id: (technique, level text, level note, design ref)
 "C14": ("post-conditions on the real NxMixedGraph methods vs set-comprehension reference (O3); exhaustive 3-node scope + random hostile ADMGs + call histories with aliasing probe",
         "Every one of the 15 operations is monitored on every call (also inside the algorithms' recursion) and compared with its set-theoretic definition; the 3-node scope is enumerated completely, larger graphs are sampled. Held = no monitor fired on the executions listed in the evidence.",
         "trusts vmon/refgraph.py (O3) as the statement of the definitions; sampled graphs only beyond 3 nodes", "DESIGN §4 C14"),
}
CHECKS.update({
 "C04": ("post-condition on the real are_d_separated vs Bayes-ball m-separation on the explicit latent DAG (O3); exhaustive ADMGs n<=3 (quick) / n<=4 (thorough), random hostile ADMGs n<=8, calls harvested from IDC runs; symmetry by swapped call; insertion-order pairs and construction-path pairs (factory methods vs dataclass constructor)",
         "Every call of are_d_separated (own workload and those made inside IDC) is compared with an independent reachability oracle; small scopes are enumerated completely. Held = no disagreement, asymmetry, order dependence or non-canonical record on the executions listed.",
         "trusts O3's Bayes-ball on the latent DAG as the definition of m-separation", "DESIGN §4 C04"),
 "C20": ("post-condition on the real are_sigma_separated vs O3 m-separation on acyclic graphs (exhaustive n<=3/4 + random incl. deep-collider class); symmetry and adjacency monitors on random cyclic mixed graphs",
         "Agreement with d-separation is decided for every acyclic case explored; symmetry/adjacency for cyclic ones. Held = no monitor fired.",
         "trusts O3; cyclic graphs only for the symmetry and adjacency clauses (as the property states)", "DESIGN §4 C20"),
})
CHECKS.update({
 "C01": ("post-condition on the real identify_outcomes/identify: estimand denoted on K random positive SCMs (exact rational functional-SCM engine O1/O2) vs P(y|do x) for all assignments; hostile ADMG generator + trace-guided feedback towards line 7; example-graph corpus",
         "Each returned estimand is evaluated exactly on sampled compatible models and compared with the model's own interventional distribution for every value assignment, including every other free variable. Held = equal on all (case, model, assignment) triples listed in the evidence.",
         "trusts O1/O2 and the reading conventions of DESIGN §3; models are sampled; at most 6 live variables per model (graphs of 10-14 nodes are driven with the other nodes as one-valued constants)", "DESIGN §4 C01, §11.7"),
 "C02": ("exception recorder + deep-freeze snapshots + Tian-Pearl reference verdict (O4) + activation counter on the real identify_outcomes/identify; exhaustive ADMGs n<=3 x all queries, random hostile ADMGs n<=8, 40-call histories on a shared graph",
         "Totality, purity, completeness and bounded progress are decided per call by independent monitors. Held = no monitor fired on the executions listed.",
         "trusts O4 (sound and complete reference identifiability); graphs beyond 3 nodes are sampled", "DESIGN §4 C02"),
 "C03": ("post-condition on the real identify_outcomes(conditions=)/idc: estimand vs P(y,z|do x)/P(z|do x) on K exact random SCMs for all assignments; exception recorder; C04 monitor riding on IDC's rule-2 queries; call histories in which the caller re-uses its own set objects, judged against the caller's intent",
         "As C01 for the conditional query, plus the 'never fails in another way' clause by the exception recorder.",
         "trusts O1/O2; sampled models and graphs (n<=5)", "DESIGN §4 C03"),
})
CHECKS.update({
 "C10": ("post-condition on the real canonicalize / Canonicalizer.canonicalize / canonical_expr_equal: original and canonical form evaluated under a free interpretation (mixture-of-products joint law over (population, name, world) random variables, exact rationals) for all/48 assignments x 2 interpretations; random well-scoped expression trees + permutation/semantic-edit pairs",
         "Meaning preservation is decided for every canonicalisation the workload performs, and every 'canonically equal' verdict is checked semantically. Held = no difference at any evaluated (expression, interpretation, assignment).",
         "trusts vmon/freeinterp.py and the reading conventions of DESIGN §3; interpretations are sampled", "DESIGN §4 C10"),
 "C11": ("post-condition on the real canonicalize applying it twice (object and text equality); driver comparing canonical forms of presentation permutations; offline comparison of canonical texts printed by sub-processes under PYTHONHASHSEED 0/1/2/random",
         "Idempotence, invariance under the statement's presentation permutations and hash-seed independence are each decided on every generated expression. Held = no differing pair observed.",
         "object equality (==) and str() as the statement says; expressions sampled (depth<=4/5) plus targeted tie/re-flattening classes", "DESIGN §4 C11"),
 "C12": ("driver-side monitor of the pair str/parse_y0 on expressions built only with public operators: parse succeeds, parsed object denotes the same function (free interpretation, exact), and in the un-nested-division family parsed == original and same text; post-condition on parse_y0 records every parsed string",
         "Round trip decided per generated expression. Held = every printed form parsed, denoted the same function, and (sub-family) was object- and text-identical.",
         "trusts vmon/freeinterp.py; 'pi*' (not an identifier, outside the parser's table) excluded", "DESIGN §4 C12"),
 "C13": ("post-conditions on every operator dunder (__mul__/__rmul__/__truediv__ of all 8 expression types) and helper (marginalize, conditional, normalize_marginalize, Fraction.simplify, Sum.simplify, Sum.safe, Product.safe, chain_expand, fraction_expand, bayes_expand, contract, recursive_contract): result's denotation vs the mathematical operation on the operands' denotations under a free interpretation (exact); full 8x8 operand-type matrix required",
         "Each operator/helper application made by the workload (incl. the inner applications the operators make themselves) is judged. Held = no differing application outside the listed finding; every cell of the type matrix exercised.",
         "trusts vmon/freeinterp.py; requests that sum over a name mentioned only with a value mark are counted, not judged (DESIGN §3)", "DESIGN §4 C13"),
})
CHECKS.update({
 "C15": ("post-condition on the real get_conditional_independencies: the whole returned set vs the reference's per-pair minimum-separator table (Bayes-ball on the latent DAG, sets enumerated by increasing size up to k); exhaustive ADMGs n<=3 (quick) / n<=4 (thorough) x k x policy x return_all, random n=5..6 in two insertion orders",
         "Exactness of the enumeration (one judgement per separable pair, none otherwise, true, canonical, minimum size) is decided for every call. Held = no differing set on the executions listed.",
         "trusts O3; 'size limit k' read as |C|<=k", "DESIGN §4 C15"),
 "C16": ("post-conditions on the real to_latent_variable_dag / from_latent_variable_dag / simplify_latent_dag / evans_simplify: round trip vs set algebra, observed nodes kept, second application equal, ADMG read off the result vs reference latent projection of the ORIGINAL DAG; separation (Bayes ball on the original DAG) and Tian-Pearl verdicts compared on samples; taheri_design verdicts vs reference",
         "Round trip, idempotence, node preservation and projection equality are decided on every generated graph/DAG; separation and identifiability consequences on samples. Held = no monitor fired.",
         "trusts O3 (latent_projection, Bayes ball) and O4", "DESIGN §4 C16"),
})
CHECKS.update({
 "C17": ("post-condition on the real identify_district_variables: answer evaluated on K exact random SCMs vs Q[C](v)=P(c|do(v-c)) for all v; assume/guarantee contracts on the internal lemma routines (compute_c_factor, Lemma 1/4, compute_ancestral_set_q_value); failures compared with the Tian-Pearl set recursion (O4)",
         "Every returned c-factor expression is compared with the model's own Q[C] on all assignments; every internal lemma call whose input denotes Q of its set must return Q of the requested set. Held = equal everywhere evaluated.",
         "trusts O1/O2; sampled models (n<=5)", "DESIGN §4 C17"),
 "C18": ("post-condition on the real make_counterfactual_graph (own workload + the calls ID* makes): relabelled event evaluated in the ORIGINAL model on K functional SCMs with shared noise (exact) vs the original event; 'inconsistent' refuted by a positive-probability witness model; structural clauses on the returned graph by reference set algebra; input snapshots; on-raise observer (an exception on an event without a self-intervened event variable is a violation)",
         "Probability preservation, the only-if clause of 'inconsistent', the structural clauses and what the returned graph claims about the relabelled event (independence across connected components / of m-separated event variables) are decided on every call. Held = no monitor fired.",
         "trusts O1 multi-world evaluation and O3; sampled models", "DESIGN §4 C18"),
 "C07": ("post-condition on the real id_star: expression read per DESIGN §3 (event values, literal subscripts with Sum-bound override tried both ways, universal reading of unvalued free variables, existential reading of doubly valued names) vs P(event) on K functional SCMs with shared noise (exact); Zero refuted by witness models; exception recorder; finding predicates from wrapped line-6/line-9 helpers",
         "Each answer is compared with the probability of the queried conjunction in every sampled model. Held = no violation outside the four listed mechanisms (their hit counts and the clean-region count are in the evidence).",
         "trusts O1/O2 and the reading conventions; the listed findings mask further defects inside their own sub-families", "DESIGN §4 C07"),
 "C08": ("post-condition on the real idc_star: expression vs P(out and cond)/P(cond) on K functional SCMs (exact) in every model with P(cond)>0; Zero refuted by witness models; congruence-closure oracle (O5) proves a condition impossible in every model, then an answer instead of a rejection is a violation; exception recorder; C04 monitor on the rule-2 queries",
         "Each answer/zero/rejection is judged against sampled models and the closure oracle. Held = no violation outside the listed mechanisms.",
         "trusts O1/O2/O5; listed findings (four inherited from ID*, four of IDC*) mask further defects inside their sub-families", "DESIGN §4 C08"),
})
CHECKS.update({
 "C05": ("post-condition on the real identify_target_outcomes: estimand evaluated on FAMILIES of exact random SCMs (target + per-domain copies re-drawn exactly at the independently recomputed differing nodes, compared with y0's T_ nodes) vs P*(y|do x) for all assignments; no-domain verdict vs Tian-Pearl reference; exception recorder; argument snapshots; generator biased beyond plain identifiability",
         "Soundness of every returned estimand on sampled families, the ID-equivalence clause without domains and totality are decided per call. Held = no monitor fired (no finding is listed for this property any more: the former one was repaired).",
         "trusts O1/O2, the reading of PP[pi_i][Z'] as the experiment do(Z'=context value) in domain i, and the published selection-diagram construction", "DESIGN §4 C05"),
 "C06": ("syntactic-walk post-conditions on all five entry points (ID, IDC, TRSO, ID*, IDC*) over a large structural-only workload (no model evaluation), plus the same walk riding on the C01/C03/C05/C07/C08 workloads",
         "Every returned expression is walked leaf by leaf against the vocabulary its algorithm is allowed. Held = no foreign leaf on the executions listed.",
         "vocabulary per the property statement; declared domains and experiment sets taken from the call's own arguments", "DESIGN §4 C06"),
})
CHECKS.update({
 "C19": ("post-conditions on the real minimize_counterfactual (value arrays over the whole exogenous-noise grid of exact SCMs: the SAME random variable; subscripts vs x ∩ An(Y) in G-bar-X), simplify (probability preserved, 'impossible' refuted by witness models, exception recorder), get_ancestors_of_counterfactual (Definition 2.1 by set algebra), get_ancestral_components (Definition 4.2), do_counterfactual_factor_factorization (sum-product vs P(query) on exact SCMs, existential over subscript conventions)",
         "Each of the five building blocks - and the ctf-factor helpers behind the factorisation (form test, grouping by district, conversion, Eq. 11-15 structure) - is judged on every call against its published definition / the model. Held = no violation outside the listed mechanisms.",
         "trusts O1/O3 and my reading of Definitions 2.1 and 4.2; listed findings mask further defects in their sub-families", "DESIGN §4 C19"),
})
CHECKS.update({
 "C09": ("post-condition on the real transport_unconditional_counterfactual_query / transport_conditional_counterfactual_query: y0's own input validation is called first (rejected inputs counted, not judged); anything raised afterwards is a violation; answers (expression, event) evaluated on FAMILIES of exact random SCMs (target + per-domain copies re-drawn at the transport nodes, policy variables parent-free) with the returned event's values vs the target (conditional) probability of the QUERIED event; Zero refuted by witness families; C19's monitors ride on the inner calls",
         "Totality after validation, correctness of answers on sampled families and the only-if clause of zero are decided per call. Held = no violation outside the listed mechanisms.",
         "trusts O1/O2 and the domain-graph convention (policy variables lose incoming and bidirected edges); listed findings mask further defects in their sub-families", "DESIGN §4 C09"),
})
PLANNED = {}

def main():
    props = [json.loads(l) for l in open(os.path.join(HERE, "properties.jsonl"))]
    ids = [p["id"] for p in props]
    hooks_commits = []
    hc = os.path.join(HERE, "hook_commits.txt")
    if os.path.exists(hc):
        hooks_commits = [l.split()[0] for l in open(hc) if l.strip() and not l.startswith("#")]
    checks = []
    for i in ids:
        if i not in CHECKS:
            continue
        tech, text, note, ref = CHECKS[i]
        checks.append({
            "property_id": i,
            "quick_cmd": f"./check {i} --tier quick",
            "thorough_cmd": f"./check {i} --tier thorough",
            "evidence_file": f"evidence/{i}.json",
            "replay_cmd_template": f"./check {i} --replay {{path}}",
            "engine": "vmon",
            "level_claimed": {"category": "exploration", "text": text, "design_ref": ref},
            "level_note": note,
            "technique": tech,
        })
    na = [{"property_id": i, "reason": PLANNED.get(i, "check not built yet in this session; planned per DESIGN §10 (runtime monitoring applies)")}
          for i in ids if i not in CHECKS]
    man = {
        "version": 1,
        "setup_cmd": "./setup.sh",
        "hooks": {
            "guard": "Y0_VERIF",
            "enable": "Y0_VERIF=1 in the environment of every check process (exported by ./check); y0 is imported from /repo/src, i.e. the current working tree, nothing is built",
            "baseline_off_cmd": "cd /repo && env -u Y0_VERIF /venv/bin/python -m pytest -ra -q -p no:cacheprovider --timeout=900 --continue-on-collection-errors",
            "source_commits": hooks_commits,
            "add_only": True,
        },
        "engines": [{"name": "vmon", "path": "vmon/", "serves_properties": [c["property_id"] for c in checks],
                     "kind_free_text": "runtime monitors (call/return post-conditions, class invariants, guarded trace hooks) on the real y0 callables + independent reference-model oracles (exact SCM engine, set-based graph algebra, Tian identifiability) over generated hostile workloads"}],
        "checks": checks,
        "not_applicable": na,
        "notes": "Runtime-monitoring family only. Compiler sanitizers/race detectors have nothing to observe in this pure-Python single-threaded library (DESIGN §1). Exit codes: 0 held, 1 violation, 2 inconclusive.",
    }
    json.dump(man, open(os.path.join(HERE, "MANIFEST.json"), "w"), indent=1)
    print("MANIFEST.json:", len(checks), "checks,", len(na), "not_applicable")

if __name__ == "__main__":
    main()
