"""Monitor kernel: installs call/return monitors on the *real* y0 callables, keeps the
per-process violation log and counters, and receives the guarded trace-hook events.

Conditions never raise into y0: a decided violation is appended to the log with its
witness (DESIGN 2.2).  Exceptions inside a monitor are logged as monitor errors (they make
the run inconclusive, never a violation).
"""

from __future__ import annotations

import functools
import sys
import threading
import traceback
from collections import Counter

from . import REPO  # noqa: F401  (path set-up side effect)

_state = threading.local()


class Log:
    def __init__(self):
        self.violations: list[dict] = []
        self.counters: Counter = Counter()
        self.monitor_errors: list[dict] = []
        self.trace: list[tuple] = []  # hook events of the current case
        self.case = None  # the driver's current case (for witnesses)

    def reset_case(self, case=None):
        self.trace = []
        self.case = case
        self.session = _session_state(case)


_HELD: list = []


def _session_state(case):
    """What an analyst's session holds between two library calls: builders that were subscripted but not called yet
    (``do_x = P[X]`` ... later ``do_x(Y)``), a ``Sum[X]`` waiting for its body.  y0's algorithms use the module-level
    builder ``P`` themselves, so any state such an object keeps would leak into their answers.  Chosen by a checksum of
    the case (replay makes the same choice); harmless by definition on a tree where the builders are stateless."""
    import sys

    dsl = sys.modules.get("y0.dsl")
    if dsl is None or not isinstance(case, dict):
        return None
    try:
        text = repr(sorted((str(k), str(v)) for k, v in case.items()))
    except Exception:  # noqa: BLE001
        return None
    if sum(map(ord, text)) % 5 != 3:
        _HELD.clear()
        return None
    g = case.get("graph")
    name = str(g["nodes"][0]) if isinstance(g, dict) and g.get("nodes") else "V0"
    try:
        v = dsl.Variable(name)
        _HELD[:] = [dsl.P[v], dsl.Sum[v]]
    except Exception:  # noqa: BLE001
        return None
    count("session:pending-subscripted-builders-held")
    return {"pending": f"P[{name}], Sum[{name}]"}


LOG = Log()


def count(key: str, n: int = 1) -> None:
    LOG.counters[key] += n


def violation(prop: str, monitor: str, detail: str, witness=None, mech: str | None = None, case=None):
    LOG.counters[f"violation:{prop}:{monitor}"] += 1
    LOG.violations.append(
        {
            "property": prop,
            "monitor": monitor,
            "detail": detail,
            "witness": witness,
            "mech": mech,
            "case": case if case is not None else LOG.case,
            "session": getattr(LOG, "session", None),
        }
    )


def monitor_error(where: str, exc: BaseException):
    LOG.counters["monitor_error"] += 1
    if len(LOG.monitor_errors) < 20:
        LOG.monitor_errors.append(
            {"where": where, "error": repr(exc), "tb": traceback.format_exc(limit=8), "case": LOG.case}
        )


def in_monitor() -> bool:
    return getattr(_state, "depth", 0) > 0


class quiet:
    """Context manager: code run inside is oracle code — nested monitors pass straight through."""

    def __enter__(self):
        _state.depth = getattr(_state, "depth", 0) + 1

    def __exit__(self, *a):
        _state.depth -= 1


_INSTALLED: dict[tuple, object] = {}


def wrap(orig, *, label: str, pre=None, post=None, on_raise=None):
    """Build the monitoring wrapper of ``orig``.

    pre(*a, **k) -> snapshot;  post(snapshot, result, *a, **k);  on_raise(snapshot, exc, *a, **k)
    """

    @functools.wraps(orig)
    def wrapper(*a, **k):
        if in_monitor():
            return orig(*a, **k)
        snap = None
        if pre is not None:
            with quiet():
                try:
                    snap = pre(*a, **k)
                except Exception as e:  # noqa: BLE001
                    monitor_error(label + ".pre", e)
        try:
            res = orig(*a, **k)
        except BaseException as e:  # noqa: BLE001
            LOG.counters[f"raise:{label}:{type(e).__name__}"] += 1
            if on_raise is not None:
                with quiet():
                    try:
                        on_raise(snap, e, *a, **k)
                    except Exception as e2:  # noqa: BLE001
                        monitor_error(label + ".on_raise", e2)
            raise
        LOG.counters[f"eval:{label}"] += 1
        if post is not None:
            with quiet():
                try:
                    post(snap, res, *a, **k)
                except Exception as e:  # noqa: BLE001
                    monitor_error(label + ".post", e)
        return res

    wrapper.__vmon_original__ = orig
    return wrapper


def patch_everywhere(orig, new) -> int:
    """Replace every attribute of every loaded ``y0.*`` module that *is* ``orig``."""
    n = 0
    for name, mod in list(sys.modules.items()):
        if mod is None or not (name == "y0" or name.startswith("y0.")):
            continue
        for attr, val in list(vars(mod).items()):
            if val is orig:
                setattr(mod, attr, new)
                n += 1
    return n


def install_function(module, name: str, *, label=None, pre=None, post=None, on_raise=None):
    """Monitor module-level function ``module.name`` everywhere it is referenced in y0."""
    key = ("f", module.__name__, name)
    orig = getattr(module, name)
    if key in _INSTALLED:
        return getattr(module, name)
    orig = getattr(orig, "__vmon_original__", orig)
    w = wrap(orig, label=label or f"{module.__name__.split('.')[-1]}.{name}", pre=pre, post=post, on_raise=on_raise)
    n = patch_everywhere(orig, w)
    if n == 0:
        setattr(module, name, w)
    _INSTALLED[key] = orig
    return w


def install_method(cls, name: str, *, label=None, pre=None, post=None, on_raise=None):
    """Monitor method ``cls.name`` (plain, class- or static methods)."""
    key = ("m", cls.__module__, cls.__name__, name)
    if key in _INSTALLED:
        return
    raw = cls.__dict__[name]
    label = label or f"{cls.__name__}.{name}"
    if isinstance(raw, classmethod):
        f = raw.__func__
        w = classmethod(wrap(f, label=label, pre=pre, post=post, on_raise=on_raise))
    elif isinstance(raw, staticmethod):
        f = raw.__func__
        w = staticmethod(wrap(f, label=label, pre=pre, post=post, on_raise=on_raise))
    else:
        w = wrap(raw, label=label, pre=pre, post=post, on_raise=on_raise)
    setattr(cls, name, w)
    _INSTALLED[key] = raw


def uninstall_all():
    for key, orig in list(_INSTALLED.items()):
        if key[0] == "m":
            mod = sys.modules[key[1]]
            setattr(getattr(mod, key[2]), key[3], orig)
        else:
            mod = sys.modules[key[1]]
            cur = getattr(mod, key[2])
            patch_everywhere(cur, orig)
            setattr(mod, key[2], orig)
        del _INSTALLED[key]


# ---------------------------------------------------------------------------------------
# trace hook sink (src/y0/_verif.py calls this when Y0_VERIF=1)


def _sink(tag, facts):
    LOG.trace.append((tag, facts))
    LOG.counters["tag:" + tag] += 1


def connect_hooks() -> bool:
    try:
        import y0._verif as hv  # type: ignore
    except Exception:  # noqa: BLE001
        return False
    if not getattr(hv, "ON", False):
        return False
    hv.SINK = _sink
    return True


def tags() -> list[str]:
    return [t for t, _ in LOG.trace]



class BudgetExceeded(Exception):
    """Raised inside a call that used more Python function activations than its step budget allows."""


class step_budget:
    """Context manager: count Python function activations (sys.monitoring PY_START) and abort the running call with
    BudgetExceeded once more than ``budget`` were made - termination judged by logical steps, never by the wall clock.
    ``used`` holds the count afterwards."""

    TOOL = 4

    def __init__(self, budget: int):
        self.budget = budget
        self.used = 0

    def __enter__(self):
        import sys

        mon = sys.monitoring
        try:
            mon.use_tool_id(self.TOOL, "vmon-steps")
        except ValueError:
            pass

        def on_start(code, offset):
            self.used += 1
            if self.used > self.budget:
                mon.set_events(self.TOOL, 0)
                raise BudgetExceeded()

        mon.register_callback(self.TOOL, mon.events.PY_START, on_start)
        mon.set_events(self.TOOL, mon.events.PY_START)
        return self

    def __exit__(self, *exc):
        import sys

        mon = sys.monitoring
        mon.set_events(self.TOOL, 0)
        mon.register_callback(self.TOOL, mon.events.PY_START, None)
        try:
            mon.free_tool_id(self.TOOL)
        except ValueError:
            pass
        return False
