"""Free interpretation of y0 expressions (DESIGN 2.3) — the oracle of the DSL-level
properties C10–C13.

No causal structure is assumed.  Every random variable is a triple (population, base name,
world) — world = the sorted tuple of (subscript name, subscript value) — and *all* of them
live in one joint distribution per population: a finite mixture of product distributions

    P(rv_1 = v_1, …, rv_k = v_k) = Σ_u  w_u/W · Π_i  d[rv_i, u][v_i] / D[rv_i, u]

whose integer weights are drawn from a hash of (seed, population, name, world, u).  This is a
genuine, strictly positive joint law over arbitrarily many random variables, so marginals and
conditionals of different terms are automatically consistent (chain rule, Bayes rule, sums of
joints …) while no other relation between terms is imposed: an identity of the probability
calculus holds in it, a wrong rewrite almost surely does not.  All arithmetic is exact
(``fractions.Fraction``); the only functional-model axiom built in is effectiveness
(X_{…x…} = x), which holds in every model.

Reading conventions (DESIGN §3): ``star=None`` → value from ``env[name]``; ``-`` → reference
value 0; ``+`` → alternative value 1; a subscript takes the value bound by an enclosing
``Sum`` over its name, else ``do_env[name]`` if supplied, else its literal value.
"""

from __future__ import annotations

import hashlib
import itertools as itt
import random
from fractions import Fraction

from .denote import Unbound, Undefined

NCOMP = 3


def _h(*parts) -> int:
    return int.from_bytes(hashlib.blake2b(repr(parts).encode(), digest_size=8).digest(), "big")


class FreeInterp:
    def __init__(self, seed, max_card=3, do_env=None):
        self.seed = seed
        self.max_card = max_card
        self.do_env = do_env or {}
        self._card: dict = {}
        self._rv: dict = {}
        self._w: dict = {}
        self._memo: dict = {}

    # ---- the underlying law ----------------------------------------------------------
    def card(self, name: str) -> int:
        c = self._card.get(name)
        if c is None:
            c = 2 + _h(self.seed, "card", name) % (self.max_card - 1)
            self._card[name] = c
        return c

    def values(self, name):
        return range(self.card(name))

    def _weights(self, pop):
        w = self._w.get(pop)
        if w is None:
            w = [1 + _h(self.seed, "w", pop, u) % 4 for u in range(NCOMP)]
            self._w[pop] = w
        return w

    def _dist(self, pop, name, world):
        key = (pop, name, world)
        d = self._rv.get(key)
        if d is None:
            c = self.card(name)
            d = []
            for u in range(NCOMP):
                ws = [1 + _h(self.seed, "d", pop, name, world, u, v) % 5 for v in range(c)]
                d.append((ws, sum(ws)))
            self._rv[key] = d
        return d

    def joint(self, pop, items) -> Fraction:
        """P(∧ (name, world) = value) in population pop; items = [(name, world, value)]."""
        seen = {}
        for name, world, val in items:
            k = (name, world)
            if seen.setdefault(k, val) != val:
                return Fraction(0)
        rvs = []
        for (name, world), val in seen.items():
            forced = dict(world).get(name)
            if forced is not None:  # effectiveness
                if forced != val:
                    return Fraction(0)
                continue
            if not 0 <= val < self.card(name):
                return Fraction(0)
            rvs.append((name, world, val))
        key = (pop, tuple(sorted(rvs)))
        hit = self._memo.get(key)
        if hit is not None:
            return hit
        w = self._weights(pop)
        total = Fraction(0)
        for u in range(NCOMP):
            term = Fraction(w[u], sum(w))
            for name, world, val in rvs:
                ws, tot = self._dist(pop, name, world)[u]
                term *= Fraction(ws[val], tot)
            total += term
        if len(self._memo) > 50000:
            self._memo.clear()
        self._memo[key] = total
        return total

    def qvalue(self, q, env) -> Fraction:
        dom = sorted(q.domain, key=lambda v: v.name)
        cod = sorted(q.codomain, key=lambda v: v.name)
        vals = tuple((v.name, self._var_value(v, env)) for v in itt.chain(dom, cod))
        key = (tuple(v.name for v in cod), tuple(v.name for v in dom), vals)
        return Fraction(1 + _h(self.seed, "q", key) % 7, 1 + _h(self.seed, "qd", key[:2]) % 5)

    # ---- reading --------------------------------------------------------------------
    def _var_value(self, v, env):
        if v.star is None:
            if v.name not in env:
                raise Unbound(v.name)
            return env[v.name]
        return 1 if v.star else 0

    def _world(self, v, env, bound):
        ivs = getattr(v, "interventions", None)
        if not ivs:
            return ()
        do = {}
        for i in ivs:
            if i.name in bound:
                do[i.name] = env[i.name]
            elif i.name in self.do_env:
                do[i.name] = self.do_env[i.name]
            else:
                do[i.name] = 1 if i.star else 0
        return tuple(sorted(do.items()))

    # ---- denotation -----------------------------------------------------------------
    def value(self, expr, env=None, bound=frozenset()) -> Fraction:
        from y0.dsl import Fraction as YF
        from y0.dsl import One, PopulationProbability, Probability, Product, QFactor, Sum, Zero

        env = env or {}
        if isinstance(expr, Probability):
            pop = expr.population.name if isinstance(expr, PopulationProbability) else None
            ch = [(v.name, self._world(v, env, bound), self._var_value(v, env)) for v in expr.children]
            pa = [(v.name, self._world(v, env, bound), self._var_value(v, env)) for v in expr.parents]
            num = self.joint(pop, ch + pa)
            if not pa:
                return num
            den = self.joint(pop, pa)
            if den == 0:
                raise Undefined("conditioning event of probability zero")
            return num / den
        if isinstance(expr, Product):
            out = Fraction(1)
            for e in expr.expressions:
                out *= self.value(e, env, bound)
            return out
        if isinstance(expr, Sum):
            names = sorted({r.name for r in expr.ranges})
            inner = frozenset(bound | set(names))
            env2 = dict(env)
            total = Fraction(0)
            for vals in itt.product(*[self.values(n) for n in names]):
                env2.update(zip(names, vals))
                total += self.value(expr.expression, env2, inner)
            return total
        if isinstance(expr, YF):
            d = self.value(expr.denominator, env, bound)
            if d == 0:
                raise Undefined("zero denominator")
            return self.value(expr.numerator, env, bound) / d
        if isinstance(expr, One):
            return Fraction(1)
        if isinstance(expr, Zero):
            return Fraction(0)
        if isinstance(expr, QFactor):
            return self.qvalue(expr, env)
        raise TypeError(f"cannot denote {type(expr).__name__}")


# ---------------------------------------------------------------------------------------
# structural helpers


def free_names(expr) -> set[str]:
    """Free unstarred base names (structural walk respecting Sum scopes; QFactor arguments
    count as free)."""
    from .denote import free_variables

    return free_variables(expr)


def unbound_subscripts(expr, bound=frozenset()) -> set[str]:
    """Names used as subscripts outside the scope of a Sum over them."""
    from y0.dsl import Fraction as YF
    from y0.dsl import Probability, Product, Sum

    if isinstance(expr, Probability):
        out = set()
        for v in itt.chain(expr.children, expr.parents):
            for i in getattr(v, "interventions", ()) or ():
                if i.name not in bound:
                    out.add(i.name)
        return out
    if isinstance(expr, Product):
        out = set()
        for e in expr.expressions:
            out |= unbound_subscripts(e, bound)
        return out
    if isinstance(expr, Sum):
        return unbound_subscripts(expr.expression, bound | {r.name for r in expr.ranges})
    if isinstance(expr, YF):
        return unbound_subscripts(expr.numerator, bound) | unbound_subscripts(expr.denominator, bound)
    return set()


def all_names(expr) -> set[str]:
    try:
        return {v.name for v in expr.get_variables()}
    except Exception:  # noqa: BLE001
        return set()


def size(expr) -> int:
    from y0.dsl import Fraction as YF
    from y0.dsl import Product, Sum

    if isinstance(expr, Product):
        return 1 + sum(size(e) for e in expr.expressions)
    if isinstance(expr, Sum):
        return 1 + size(expr.expression)
    if isinstance(expr, YF):
        return 1 + size(expr.numerator) + size(expr.denominator)
    return 1


def sum_cost(expr, interp) -> int:
    """Number of leaf evaluations one denotation needs (product of nested sum ranges)."""
    from y0.dsl import Fraction as YF
    from y0.dsl import Product, Sum

    if isinstance(expr, Product):
        return sum(sum_cost(e, interp) for e in expr.expressions)
    if isinstance(expr, Sum):
        k = 1
        for n in {r.name for r in expr.ranges}:
            k *= interp.card(n)
        return k * sum_cost(expr.expression, interp)
    if isinstance(expr, YF):
        return sum_cost(expr.numerator, interp) + sum_cost(expr.denominator, interp)
    return 1


class TooBig(Exception):
    pass


def assignments(interp, names, rng, cap=48):
    names = sorted(names)
    total = 1
    for n in names:
        total *= interp.card(n)
    if total <= cap:
        for vals in itt.product(*[interp.values(n) for n in names]):
            yield dict(zip(names, vals))
    else:
        for _ in range(cap):
            yield {n: rng.randrange(interp.card(n)) for n in names}


def compare(lhs, rhs_fn, names, tag, n_interp=2, cap=48, max_cost=4000, do_names=()):
    """Compare ⟦lhs⟧ with rhs_fn(interp, env) over n_interp interpretations × assignments of
    ``names``.  -> (status, info): ("equal", n_points) | ("differ", witness) | ("skipped", why).
    ``lhs`` may be an expression or a callable (interp, env) -> Fraction.
    do_names: subscript names that are additionally given a do_env value from env."""
    npoints = 0
    undefined = 0
    for k in range(n_interp):
        seed = f"{tag}:{k}"
        interp = FreeInterp(seed)
        rng = random.Random(seed)
        for env in assignments(interp, names, rng, cap=cap):
            if do_names:
                interp.do_env = {n: env[n] for n in do_names if n in env}
            try:
                want = rhs_fn(interp, env)
            except Undefined:
                undefined += 1
                continue
            try:
                got = lhs(interp, env) if callable(lhs) else interp.value(lhs, env)
            except Undefined:
                return "differ", {"assignment": env, "interp_seed": seed, "got": "undefined", "want": str(want)}
            npoints += 1
            if got != want:
                return "differ", {"assignment": env, "interp_seed": seed, "got": str(got), "want": str(want),
                                  "cards": dict(interp._card)}
    if npoints == 0:
        return "skipped", f"undefined at all {undefined} points"
    return "equal", npoints


def same_meaning(a, b, tag, **kw):
    """Do two expressions denote the same function?  Free names are the union of both sides'
    free names (a side that lacks a name must be constant in it)."""
    names = free_names(a) | free_names(b)
    if len(all_names(a) | all_names(b)) > 10:
        return "skipped", "too many names"
    probe = FreeInterp(f"{tag}:0")
    if sum_cost(a, probe) + sum_cost(b, probe) > kw.pop("max_cost", 3000):
        return "skipped", "too costly"
    return compare(a, lambda interp, env: interp.value(b, env), names, tag, **kw)
