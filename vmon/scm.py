"""O1 — exact functional structural-causal-model engine (DESIGN 2.3).

A model over an ADMG has one exogenous noise U_V per node (integer weights) and one shared
latent per bidirected edge (or per bidirected clique).  Mechanisms are random tables, except
that U_V = u < card(V) forces V = u, which makes every observational and interventional
distribution strictly positive.  A world do(x) is evaluated for *all* exogenous
configurations at once (numpy arrays over the noise grid); probabilities are exact
``fractions.Fraction`` of integer weight sums.  Joint events across several worlds are
conjunctions of masks over the same noise grid (Pearl's three-step semantics, literally).
"""

from __future__ import annotations

import itertools as itt
import random
from fractions import Fraction

import numpy as np

MAX_GRID = 1_500_000


class ModelTooLarge(Exception):
    pass


class Model:
    def __init__(self, order, parents, latents, card, noise_w, tables, lat_w):
        """order: node names, topological; parents[v]: ordered list of observed parents;
        latents: list of (latent name, [children]); card[v]; noise_w[v]: int weights of U_v
        (len >= card[v]+1); lat_w[l]: int weights; tables[v]: ndarray indexed by
        (parents..., latents at v..., u_v) -> value."""
        self.order = list(order)
        self.live = [v for v in self.order if card[v] > 1]
        self.parents = {v: list(parents[v]) for v in order}
        self.latents = [(l, list(ch)) for l, ch in latents]
        self.card = dict(card)
        self.noise_w = {v: np.asarray(w, dtype=np.int64) for v, w in noise_w.items()}
        self.lat_w = {l: np.asarray(w, dtype=np.int64) for l, w in lat_w.items()}
        self.tables = dict(tables)
        self.lat_of = {v: [l for l, ch in self.latents if v in ch] for v in order}
        # grid axes: own noises in node order, then latents
        # (an exogenous term with a single value is a constant: it gets no axis - numpy allows 32 dimensions)
        all_axes = [("U", v) for v in order] + [("L", l) for l, _ in self.latents]
        all_sizes = [len(self.noise_w[v]) for v in order] + [len(self.lat_w[l]) for l, _ in self.latents]
        self.axes = [a for a, n in zip(all_axes, all_sizes) if n > 1]
        self.const_weight = 1
        for a, n in zip(all_axes, all_sizes):
            if n == 1:
                self.const_weight *= int((self.noise_w[a[1]] if a[0] == "U" else self.lat_w[a[1]])[0])
        self.axis_index = {a: i for i, a in enumerate(self.axes)}
        self.sizes = [n for n in all_sizes if n > 1]
        self.grid = int(np.prod([int(s) for s in self.sizes], dtype=object)) if self.sizes else 1
        if self.grid > MAX_GRID:
            raise ModelTooLarge(self.grid)
        self.W = 1
        for v in order:
            self.W *= int(self.noise_w[v].sum())
        for l, _ in self.latents:
            self.W *= int(self.lat_w[l].sum())
        if not self.W < 2 ** 53:  # (not an assert statement: some shards run under python -O)
            raise AssertionError("weight total must stay exactly representable")
        self._worlds: dict = {}
        self._joint: dict = {}
        self._marg: dict = {}
        self._wflat = None

    # ---- noise grid --------------------------------------------------------------
    def _axis_array(self, axis):
        i = self.axis_index.get(axis)
        if i is None:
            return np.zeros([1] * len(self.axes), dtype=np.int64)
        shape = [1] * len(self.axes)
        shape[i] = self.sizes[i]
        return np.arange(self.sizes[i], dtype=np.int64).reshape(shape)

    def weights_flat(self):
        if self._wflat is None:
            w = np.full([1] * len(self.axes), self.const_weight, dtype=np.int64)
            for a in self.axes:
                i = self.axis_index[a]
                shape = [1] * len(self.axes)
                shape[i] = self.sizes[i]
                ww = (self.noise_w[a[1]] if a[0] == "U" else self.lat_w[a[1]]).reshape(shape)
                w = w * ww
            self._wflat = np.ascontiguousarray(np.broadcast_to(w, self.sizes)).ravel()
        return self._wflat

    # ---- worlds ------------------------------------------------------------------
    def world(self, do=None):
        """dict node -> int array (broadcastable to the grid) of the node's value under do."""
        do = do or {}
        key = tuple(sorted(do.items()))
        hit = self._worlds.get(key)
        if hit is not None:
            return hit
        vals = {}
        for v in self.order:
            if v in do:
                vals[v] = np.full([1] * len(self.axes), int(do[v]), dtype=np.int64)
                continue
            idx = [vals[p] for p in self.parents[v]]
            idx += [self._axis_array(("L", l)) for l in self.lat_of[v]]
            idx.append(self._axis_array(("U", v)))
            vals[v] = self.tables[v][tuple(np.broadcast_arrays(*idx))]
        if len(self._worlds) > 64:
            self._worlds.clear()
        self._worlds[key] = vals
        return vals

    def weight_of(self, mask) -> int:
        """Exact integer weight of a boolean mask over the grid (broadcastable shape)."""
        m = np.broadcast_to(mask, self.sizes).ravel()
        return int(self.weights_flat()[m].sum())

    def prob(self, events) -> Fraction:
        """P(conjunction) for events = [(do dict, node, value), ...] possibly across worlds."""
        return Fraction(self.weight_of(self.mask(events)), self.W)

    def mask(self, events):
        m = np.ones([1] * len(self.axes), dtype=bool)
        for do, node, val in events:
            m = m & (self.world(do)[node] == val)
        return m

    # ---- single-world joint tables --------------------------------------------------
    def joint_table(self, do=None):
        """int64 ndarray of shape (card[v] for v in order): exact weight of each assignment."""
        do = do or {}
        key = tuple(sorted(do.items()))
        hit = self._joint.get(key)
        if hit is not None:
            return hit
        vals = self.world(do)
        flat = np.zeros(self.grid, dtype=np.int64)
        stride = 1
        # (one-valued variables get no axis: numpy allows 32 dimensions, wide graphs have more nodes than that)
        for v in reversed(self.live):
            flat += np.broadcast_to(vals[v], self.sizes).ravel() * stride
            stride *= self.card[v]
        counts = np.bincount(flat, weights=self.weights_flat().astype(np.float64), minlength=stride)
        table = np.rint(counts).astype(np.int64).reshape([self.card[v] for v in self.live])
        if int(table.sum()) != self.W:
            raise AssertionError("weight total")
        if len(self._joint) > 128:
            self._joint.clear()
            self._marg.clear()
        self._joint[key] = table
        return table

    def marginal(self, do, names):
        """Exact weight table over ``names`` (sorted by model order) in world do."""
        do = do or {}
        key = (tuple(sorted(do.items())), tuple(names))
        hit = self._marg.get(key)
        if hit is not None:
            return hit
        t = self.joint_table(do)
        keep = set(names)
        axes = tuple(i for i, v in enumerate(self.live) if v not in keep)
        m = t.sum(axis=axes) if axes else t
        self._marg[key] = m
        return m

    def p(self, assignment: dict, do=None) -> Fraction:
        """P(assignment) in world do (single world), exact."""
        for v in assignment:
            if self.card.get(v) == 1 and assignment[v] != (do or {}).get(v, 0):
                return Fraction(0)  # a constant takes its only value (or the value it is set to)
        names = [v for v in self.live if v in assignment]
        m = self.marginal(do, tuple(names))
        return Fraction(int(m[tuple(assignment[v] for v in names)]), self.W)

    def values(self, v):
        return range(self.card[v])

    # ---- derived models --------------------------------------------------------------
    def redraw(self, nodes, rng: random.Random, cut_parents=()):
        """A model agreeing with this one except at ``nodes`` (mechanism table and own-noise
        weights re-drawn).  Nodes in ``cut_parents`` additionally lose all observed parents and
        latents (policy variables: a parent-free random mechanism)."""
        parents = {v: list(self.parents[v]) for v in self.order}
        latents = [(l, list(ch)) for l, ch in self.latents]
        tables = dict(self.tables)
        noise_w = {v: self.noise_w[v].copy() for v in self.order}
        for v in cut_parents:
            parents[v] = []
            latents = [(l, [c for c in ch if c != v]) for l, ch in latents]
        lat_of = {v: [l for l, ch in latents if v in ch] for v in self.order}
        for v in list(nodes) + list(cut_parents):
            if len(self.noise_w[v]) == 1:
                # a constant stays the constant it is (weight 1: the total weight must stay exactly representable)
                noise_w[v] = np.asarray([1], dtype=np.int64)
            else:
                noise_w[v] = np.asarray([rng.randint(1, 3) for _ in range(len(self.noise_w[v]))], dtype=np.int64)
            tables[v] = _random_table(rng, self.card, parents[v], [len(self.lat_w[l]) for l in lat_of[v]],
                                      len(noise_w[v]), self.card[v])
        return Model(self.order, parents, latents, self.card, noise_w, tables, self.lat_w)


def _random_table(rng, card, parents, lat_sizes, n_noise, card_v):
    shape = [card[p] for p in parents] + list(lat_sizes) + [n_noise]
    size = int(np.prod(shape)) if shape else 1
    data = np.asarray([rng.randrange(card_v) for _ in range(size)], dtype=np.int64).reshape(shape)
    # own noise value u < card forces V = u (positivity)
    for u in range(card_v):
        data[..., u] = u
    return data


def random_model(rng: random.Random, order, parents, bidirected, *, max_card=3, clique_latents=False,
                 extra_noise=1, card=None):
    """Random positive model inducing the ADMG (order = a topological order of node names)."""
    order = list(order)
    n = len(order)
    bidirected = [tuple(e) for e in bidirected]
    if clique_latents:
        groups = _cliques(order, bidirected)
    else:
        groups = [list(e) for e in bidirected]
    # adapt sizes so the grid stays small
    for attempt in range(6):
        cards = dict(card) if card else {v: rng.randint(2, max(2, max_card - (1 if attempt >= 2 else 0))) for v in order}
        lat_card = 2 if (attempt >= 1 or len(groups) > 5) else None
        latents = [(f"L{i}", g) for i, g in enumerate(groups)]
        lat_w = {l: [rng.randint(1, 3) for _ in range(lat_card or rng.randint(2, 3))] for l, _ in latents}
        xn = extra_noise if attempt < 3 else 1
        noise_w = {v: [rng.randint(1, 3) for _ in range(cards[v] + xn)] for v in order}
        if attempt >= 4:
            cards = dict(card) if card else {v: 2 for v in order}
            noise_w = {v: [rng.randint(1, 3) for _ in range(cards[v] + 1)] for v in order}
        # a one-valued variable is a constant: no noise of its own, and a latent all of whose children are constants
        # has nothing to confound (both keep the grid small on wide graphs with a few live variables)
        for v in order:
            if cards[v] == 1:
                noise_w[v] = [1]
        for l, g in latents:
            if all(cards[c] == 1 for c in g):
                lat_w[l] = [1]
        grid = 1
        for v in order:
            grid *= len(noise_w[v])
        for l, _ in latents:
            grid *= len(lat_w[l])
        wtot = 1
        for v in order:
            wtot *= sum(noise_w[v])
        for l, _ in latents:
            wtot *= sum(lat_w[l])
        if grid <= MAX_GRID and wtot < 2 ** 53:
            break
    else:
        raise ModelTooLarge(grid)
    lat_of = {v: [l for l, ch in latents if v in ch] for v in order}
    tables = {
        v: _random_table(rng, cards, parents[v], [len(lat_w[l]) for l in lat_of[v]], len(noise_w[v]), cards[v])
        for v in order
    }
    return Model(order, parents, latents, cards, noise_w, tables, lat_w)


def _cliques(order, bidirected):
    """Greedy edge cover of the bidirected graph by cliques (each edge in >= 1 clique)."""
    adj = {v: set() for v in order}
    for a, b in bidirected:
        adj[a].add(b)
        adj[b].add(a)
    remaining = {frozenset(e) for e in bidirected}
    out = []
    while remaining:
        a, b = sorted(next(iter(sorted(remaining, key=sorted))))
        clique = [a, b]
        for v in order:
            if v not in clique and all(v in adj[c] for c in clique):
                clique.append(v)
        out.append(clique)
        for x, y in itt.combinations(clique, 2):
            remaining.discard(frozenset((x, y)))
    return out


def model_for_graph(rng, gd, **kw):
    """Random model for a graph description {"nodes","di","bi"} (names)."""
    from .refgraph import RG

    ref = RG.make(gd["nodes"], [tuple(e) for e in gd["di"]], [tuple(e) for e in gd["bi"]])
    order = ref.topological_order()
    pm = ref.parents_map()
    parents = {v: sorted(pm[v]) for v in order}
    return random_model(rng, order, parents, [tuple(sorted(e)) for e in gd["bi"]], **kw)
