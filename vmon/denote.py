"""O2 — denotation of y0 Expression trees over O1 models (reading conventions: DESIGN §3).

``Denoter(family, ref, alt, do_env)``: family maps population name -> Model (key None or
"pi*" = target); ref/alt give each variable's reference ('-') and alternative ('+') value.
``value(expr, env)`` -> Fraction, where env maps base names to values (event / query values
and Sum-bound names).  Raises Undefined on 0/0 or division by zero.
"""

from __future__ import annotations

import itertools as itt
from fractions import Fraction

TARGET = "pi*"


class Undefined(Exception):
    pass


class Unbound(Exception):
    """A free, unstarred variable without a value was met."""

    def __init__(self, name):
        super().__init__(name)
        self.name = name


def free_variables(expr) -> set[str]:
    """Free *unstarred* base names of an expression, by a structural walk that respects Sum
    scopes (Expression.get_variables() also returns bound names and subscripts)."""
    from y0.dsl import Fraction as YF
    from y0.dsl import One, Probability, Product, QFactor, Sum, Zero

    if isinstance(expr, Probability):
        return {v.name for v in itt.chain(expr.children, expr.parents) if v.star is None}
    if isinstance(expr, Product):
        out = set()
        for e in expr.expressions:
            out |= free_variables(e)
        return out
    if isinstance(expr, Sum):
        return free_variables(expr.expression) - {r.name for r in expr.ranges}
    if isinstance(expr, YF):
        return free_variables(expr.numerator) | free_variables(expr.denominator)
    if isinstance(expr, (One, Zero)):
        return set()
    if isinstance(expr, QFactor):
        return {v.name for v in itt.chain(expr.domain, expr.codomain)}
    raise TypeError(type(expr))


def subscript_names(expr) -> set[str]:
    """Names used as intervention subscripts anywhere in the expression."""
    from y0.dsl import CounterfactualVariable
    from y0.dsl import Fraction as YF
    from y0.dsl import Probability, Product, Sum

    if isinstance(expr, Probability):
        out = set()
        for v in itt.chain(expr.children, expr.parents):
            if isinstance(v, CounterfactualVariable):
                out |= {i.name for i in v.interventions}
        return out
    if isinstance(expr, Product):
        out = set()
        for e in expr.expressions:
            out |= subscript_names(e)
        return out
    if isinstance(expr, Sum):
        return subscript_names(expr.expression)
    if isinstance(expr, YF):
        return subscript_names(expr.numerator) | subscript_names(expr.denominator)
    return set()


def leaves(expr):
    """All Probability leaves."""
    from y0.dsl import Fraction as YF
    from y0.dsl import Probability, Product, Sum

    if isinstance(expr, Probability):
        yield expr
    elif isinstance(expr, Product):
        for e in expr.expressions:
            yield from leaves(e)
    elif isinstance(expr, Sum):
        yield from leaves(expr.expression)
    elif isinstance(expr, YF):
        yield from leaves(expr.numerator)
        yield from leaves(expr.denominator)


class Denoter:
    def __init__(self, family, ref=None, alt=None, do_env=None, literal_subscripts=False, sum_binds_subscripts=True,
                 plus_literal=False):
        if not isinstance(family, dict):
            family = {TARGET: family}
        self.family = family
        self.target = family.get(TARGET) or family.get(None)
        self.ref = ref or {}
        self.alt = alt or {}
        self.do_env = do_env or {}
        self.literal = literal_subscripts
        self.sum_binds = sum_binds_subscripts
        self.plus_literal = plus_literal  # a '+' subscript is always the literal alternative value
        self._memo: dict = {}
        self._sum_memo: dict = {}
        self._rel: dict = {}
        self.bound_stack: list[set] = []

    def _relnames(self, expr):
        """Every name an expression mentions (variables, subscripts, summation ranges)."""
        hit = self._rel.get(id(expr))
        if hit is not None and hit[0] is expr:
            return hit[1]
        from y0.dsl import Fraction as YF
        from y0.dsl import Probability, Product, Sum

        out = set()
        if isinstance(expr, Probability):
            for v in itt.chain(expr.children, expr.parents):
                out.add(v.name)
                out |= {i.name for i in getattr(v, "interventions", ()) or ()}
        elif isinstance(expr, Product):
            for e in expr.expressions:
                out |= self._relnames(e)
        elif isinstance(expr, Sum):
            out |= {r.name for r in expr.ranges} | self._relnames(expr.expression)
        elif isinstance(expr, YF):
            out |= self._relnames(expr.numerator) | self._relnames(expr.denominator)
        out = frozenset(out)
        self._rel[id(expr)] = (expr, out)
        return out

    # -- values -------------------------------------------------------------------
    def _star_value(self, name, star):
        return (self.alt if star else self.ref)[name]

    def _var_value(self, v, env):
        if v.star is None:
            if v.name not in env:
                raise Unbound(v.name)
            return env[v.name]
        return self._star_value(v.name, v.star)

    def _world(self, v, env, bound):
        from y0.dsl import CounterfactualVariable

        if not isinstance(v, CounterfactualVariable):
            return ()
        do = {}
        for i in v.interventions:
            if self.plus_literal and i.star:
                do[i.name] = self._star_value(i.name, True)
            elif i.name in bound and self.sum_binds:
                do[i.name] = env[i.name]
            elif not self.literal and i.name in self.do_env:
                do[i.name] = self.do_env[i.name]
            else:
                do[i.name] = self._star_value(i.name, i.star)
        return tuple(sorted(do.items()))

    def model_for(self, expr):
        from y0.dsl import PopulationProbability

        if isinstance(expr, PopulationProbability):
            name = expr.population.name
            if name not in self.family:
                raise KeyError(f"population {name} not in family")
            return self.family[name]
        return self.target

    # -- evaluation ---------------------------------------------------------------
    def value(self, expr, env=None, bound=frozenset()) -> Fraction:
        from y0.dsl import Fraction as YF
        from y0.dsl import One, Probability, Product, Sum, Zero

        env = env or {}
        if isinstance(expr, Probability):
            return self._prob(expr, env, bound)
        if isinstance(expr, Product):
            out = Fraction(1)
            for e in expr.expressions:
                out *= self.value(e, env, bound)
            return out
        if isinstance(expr, Sum):
            names = sorted(r.name for r in expr.ranges)
            # the value of a sum depends only on the names it mentions (minus the ones it binds itself): memoised, since
            # nested sums are otherwise re-evaluated for every assignment of the enclosing ones
            rel = self._relnames(expr)
            own = set(names)
            key = (id(expr), tuple(sorted((n, env[n]) for n in rel if n in env and n not in own)),
                   tuple(sorted(n for n in bound if n in rel)),
                   tuple(sorted((n, v) for n, v in self.do_env.items() if n in rel)))
            hit = self._sum_memo.get(key)
            if hit is not None and hit[0] is expr:
                return hit[1]
            model = self.target
            total = Fraction(0)
            inner_bound = frozenset(bound | own)
            env2 = dict(env)
            for vals in itt.product(*[model.values(n) for n in names]):
                env2.update(zip(names, vals))
                total += self.value(expr.expression, env2, inner_bound)
            if len(self._sum_memo) > 200000:
                self._sum_memo.clear()
            self._sum_memo[key] = (expr, total)
            return total
        if isinstance(expr, YF):
            d = self.value(expr.denominator, env, bound)
            if d == 0:
                raise Undefined("zero denominator")
            return self.value(expr.numerator, env, bound) / d
        if isinstance(expr, One):
            return Fraction(1)
        if isinstance(expr, Zero):
            return Fraction(0)
        raise TypeError(f"cannot denote {type(expr).__name__}")

    def _prob(self, expr, env, bound):
        model = self.model_for(expr)
        ch = [(self._world(v, env, bound), v.name, self._var_value(v, env)) for v in expr.children]
        pa = [(self._world(v, env, bound), v.name, self._var_value(v, env)) for v in expr.parents]
        key = (id(model), tuple(ch), tuple(pa))
        hit = self._memo.get(key)
        if hit is not None:
            return hit
        num = self._joint(model, ch + pa)
        if pa:
            den = self._joint(model, pa)
            if den == 0:
                raise Undefined("conditioning event of probability zero")
            out = num / den
        else:
            out = num
        self._memo[key] = out
        return out

    @staticmethod
    def _joint(model, events):
        """P(conjunction of (world, name, value))."""
        worlds = {w for w, _, _ in events}
        if len(worlds) == 1:
            w = dict(next(iter(worlds)))
            assign = {}
            for _, n, val in events:
                if n in w and w[n] != val:
                    return Fraction(0)
                if assign.setdefault(n, val) != val:
                    return Fraction(0)
            for n in assign:
                if n not in model.card:
                    raise KeyError(f"variable {n} not in model")
            return model.p(assign, w)
        return model.prob([(dict(w), n, val) for w, n, val in events])
