"""Monitors on the real surrogate-outcome / transport entry point (C05, C06-TRSO clause).

A *family* of models is built for every call: the target model plus, per source domain, a copy
whose mechanisms are re-drawn exactly at the nodes an independent re-implementation of the
selection-diagram construction marks as differing; the T_ nodes y0 itself put into its diagrams
are compared with that set (a disagreement is a violation by itself).
"""

from __future__ import annotations

import hashlib
import itertools as itt
import random

from . import kernel, mon_id
from .denote import TARGET, Denoter, Unbound, Undefined, free_variables, leaves
from .refgraph import RG
from .refid import identifiable
from .snap import freeze_graph, freeze_value

CONFIG = {"K": 2, "max_card": 3, "semantic": True, "max_nodes_semantic": 6}
FACTS: dict = {}


def differing_nodes(ref: RG, Z, W):
    """(De(Z) - W)  ∪  (C(W) - An(W) in G with edges into Z removed)   [Tikka & Karvanen 2019]."""
    Z, W = set(Z), set(W)
    de = ref.descendants_inclusive(Z)
    cw = set()
    for d in ref.districts():
        if d & W:
            cw |= d
    an = ref.remove_in_edges(Z).ancestors_inclusive(W)
    return (de - W) | (cw - an)


def _pop_name(p):
    return getattr(p, "name", str(p))


def vocabulary_trso(expr, node_names, surrogate_interventions):
    """C06, transport clause -> list of problems."""
    from y0.dsl import CounterfactualVariable, Fraction as YF, One, PopulationProbability, Probability, Product, Sum, Zero

    declared = {_pop_name(p): {v.name for v in z} for p, z in surrogate_interventions.items()}
    bad = []

    def name_ok(n):
        return n in node_names

    def walk(e):
        if isinstance(e, Probability):
            pop = _pop_name(e.population) if isinstance(e, PopulationProbability) else TARGET
            sets = set()
            for v in itt.chain(e.children, e.parents):
                if not name_ok(v.name):
                    bad.append(f"non-graph name {v.name} in {e}")
                if v.star is not None:
                    bad.append(f"valued variable {v} in {e}")
                ivs = frozenset(i.name for i in v.interventions) if isinstance(v, CounterfactualVariable) else frozenset()
                sets.add(ivs)
            if len(sets) > 1:
                bad.append(f"term mixing subscript sets {e}")
            subs = next(iter(sets)) if sets else frozenset()
            if pop == TARGET:
                if subs:
                    bad.append(f"target-domain term with intervention subscripts {e}")
            elif pop not in declared:
                bad.append(f"undeclared population {pop} in {e}")
            elif not subs <= declared[pop]:
                bad.append(f"{e} needs an experiment on {sorted(subs - declared[pop])} that domain {pop} does not declare "
                           f"(declared {sorted(declared[pop])})")
        elif isinstance(e, Product):
            for x in e.expressions:
                walk(x)
        elif isinstance(e, Sum):
            for r in e.ranges:
                if not name_ok(r.name):
                    bad.append(f"sum over non-graph variable {r}")
            walk(e.expression)
        elif isinstance(e, YF):
            walk(e.numerator)
            walk(e.denominator)
        elif isinstance(e, (One, Zero)):
            pass
        else:
            bad.append(f"unexpected node {type(e).__name__}")

    walk(expr)
    return bad


def classify(kind, detail=""):
    if kind == "raise" and "at least one child" in detail:
        return "trso.activate-empty-children"
    if kind in ("vocabulary", "value") and FACTS.get("sums_transport_node"):
        return "trso.line9-sums-transport-node"
    return None


def _pre(graph, *, target_outcomes, target_interventions, surrogate_outcomes, surrogate_interventions):
    FACTS.clear()
    return {"ref": RG.from_nx(graph), "fz": freeze_graph(graph),
            "args": freeze_value((target_outcomes, target_interventions, surrogate_outcomes, surrogate_interventions))}


def _domains(surrogate_outcomes, surrogate_interventions):
    return {_pop_name(p): (sorted(v.name for v in surrogate_interventions[p]), sorted(v.name for v in surrogate_outcomes[p]))
            for p in surrogate_outcomes}


def _judge(snap, res, exc, graph, target_outcomes, target_interventions, surrogate_outcomes, surrogate_interventions):
    from y0.dsl import Expression

    ref = snap["ref"]
    X, Y = set(target_interventions), set(target_outcomes)
    names = {v.name for v in ref.V}
    doms = _domains(surrogate_outcomes, surrogate_interventions) if set(surrogate_outcomes) == set(surrogate_interventions) else None
    case = {"graph": mon_id.gd_of(ref), "X": sorted(v.name for v in X), "Y": sorted(v.name for v in Y), "domains": doms}
    if mon_id.cards_hint():
        case["cards"] = mon_id.cards_hint()
    allv = set().union(*surrogate_outcomes.values(), *surrogate_interventions.values()) if surrogate_outcomes or surrogate_interventions else set()
    valid = (doms is not None and ref.is_acyclic() and X and Y and not (X & Y) and (X | Y | allv) <= set(ref.V)
             and all(set(surrogate_outcomes[p]) and set(surrogate_interventions[p])
                     and not (set(surrogate_outcomes[p]) & set(surrogate_interventions[p])) for p in surrogate_outcomes))
    if not valid:
        kernel.count("C05:invalid-input-skipped")
        return
    if freeze_graph(graph) != snap["fz"]:
        kernel.violation("C05", "graph-unchanged", "identify_target_outcomes modified the caller's graph", case=case)
    if freeze_value((target_outcomes, target_interventions, surrogate_outcomes, surrogate_interventions)) != snap["args"]:
        kernel.violation("C05", "arguments-unchanged", "identify_target_outcomes modified its arguments", case=case)
    if exc is not None:
        kernel.violation("C05", "total", f"identify_target_outcomes raised {type(exc).__name__}: {exc} on the valid input {case}",
                         case=case, mech=classify("raise", str(exc)))
        return
    if res is not None and not isinstance(res, Expression):
        kernel.violation("C05", "total", f"identify_target_outcomes returned {type(res).__name__}", case=case)
        return
    # selection diagrams: y0's T_ nodes vs the independent construction
    diff = {}
    for p in surrogate_outcomes:
        want = {v.name for v in differing_nodes(ref, surrogate_interventions[p], surrogate_outcomes[p])}
        diff[_pop_name(p)] = want
        got = FACTS.get("transport_nodes", {}).get(_pop_name(p))
        if got is not None:
            kernel.count("C05:selection-diagrams-compared")
            if got != want:
                kernel.violation("C05", "selection-diagram", f"domain {_pop_name(p)} (experiments on "
                                 f"{doms[_pop_name(p)][0]}, outcomes {doms[_pop_name(p)][1]}): y0 marks {sorted(got)} as "
                                 f"differing, the published construction gives {sorted(want)}; graph {case['graph']}", case=case)
    # no usable experiment => behaves like ID
    id_ok = identifiable(ref, X, Y)
    if not surrogate_outcomes:
        kernel.count("C05:no-domain-cases")
        if (res is not None) != id_ok:
            kernel.violation("C05", "agrees-with-id", f"without source domains identify_target_outcomes returned "
                             f"{'an estimand' if res is not None else 'None'} but P({case['Y']}|do({case['X']})) is "
                             f"{'identifiable' if id_ok else 'not identifiable'}; graph {case['graph']}", case=case)
    if res is None:
        kernel.count("C05:no-estimand")
        if id_ok:
            # with domains present the statement only promises soundness; counted for the evidence
            kernel.count("C05:no-estimand-although-id-identifiable")
        return
    kernel.count("C05:estimands")
    if not id_ok:
        kernel.count("C05:estimands-beyond-id")
    # vocabulary (C06)
    FACTS["sums_transport_node"] = "Sum[T_" in str(res) or ", T_" in str(res)
    bad = vocabulary_trso(res, names, surrogate_interventions)
    kernel.count("C06:trso-estimands-walked")
    if bad:
        kernel.violation("C06", "vocabulary-trso", f"transport estimand {res} for {case}: {bad[:3]}", case=case,
                         mech=classify("vocabulary"))
    live = len(ref.V) - sum(1 for v in ref.V if mon_id.cards_hint().get(v.name) == 1)
    if not CONFIG["semantic"] or live > CONFIG["max_nodes_semantic"] or len(ref.V) > 200:
        return
    check_family(res, ref, X, Y, diff, case)


def check_family(expr, ref, X, Y, diff, case):
    names = sorted(v.name for v in ref.V)
    Xn, Yn = sorted(v.name for v in X), sorted(v.name for v in Y)
    try:
        fv = free_variables(expr)
    except TypeError:
        return
    outside = fv - set(names)
    if outside:
        kernel.violation("C05", "free-variable-outside-graph", f"estimand {expr} mentions {sorted(outside)}", case=case,
                         mech=classify("value"))
        return
    others = sorted(fv - set(Xn) - set(Yn))
    sweep = Xn + Yn + others
    tag = f"trso|{sorted(map(str, ref.D))}|{sorted(sorted(map(str, e)) for e in ref.B)}|{sorted(diff.items())}"
    for h, m in mon_id.models_for(ref, tag, CONFIG["K"], CONFIG["max_card"]):
        rng = random.Random("fam:" + h)
        family = {TARGET: m}
        for p, nodes in sorted(diff.items()):
            family[p] = m.redraw(sorted(nodes), rng)
        kernel.count("C05:families-evaluated")
        den = Denoter(family, ref={n: 0 for n in names}, alt={n: 1 for n in names})
        npts = 0
        for vals in itt.product(*[m.values(n) for n in sweep]):
            env = dict(zip(sweep, vals))
            do = {x: env[x] for x in Xn}
            # level-2 notation: a subscript names a variable of the query context and takes that variable's value
            # (P_{v1}(v0) P_{v0,v1}(v2): the subscript v0 is the outcome's value), unless an enclosing Sum binds it
            den.do_env = env
            try:
                got = den.value(expr, env)
            except Undefined:
                kernel.count("C05:undefined-denotation")
                continue
            except Unbound as u:
                kernel.violation("C05", "unbound-variable", f"estimand {expr} has unvalued variable {u.name}", case=case,
                                 mech=classify("value"))
                return
            except KeyError as e:
                kernel.violation("C05", "estimand-value", f"estimand {expr} mentions something the family does not have: {e}",
                                 case=case, mech=classify("value"))
                return
            want = m.p({y: env[y] for y in Yn}, do)
            npts += 1
            if got != want:
                kernel.violation("C05", "estimand-value",
                                 f"estimand {expr} for P*({Yn}|do({Xn})) evaluates to {got} on the family but the target "
                                 f"model gives {want} at {env} (seed {h[:12]}, cards {m.card}); graph {case['graph']} domains "
                                 f"{case['domains']} differing nodes { {k: sorted(v) for k, v in diff.items()} }",
                                 witness={"assignment": env, "got": str(got), "want": str(want), "model_seed": h},
                                 case=case, mech=classify("value"))
                return
        kernel.count("C05:assignments-compared", npts)
    kernel.count("C05:estimands-correct")


def _post(snap, res, graph, *, target_outcomes, target_interventions, surrogate_outcomes, surrogate_interventions):
    if snap is not None:
        _judge(snap, res, None, graph, target_outcomes, target_interventions, surrogate_outcomes, surrogate_interventions)


def _on_raise(snap, exc, graph, *, target_outcomes, target_interventions, surrogate_outcomes, surrogate_interventions):
    if snap is not None:
        _judge(snap, None, exc, graph, target_outcomes, target_interventions, surrogate_outcomes, surrogate_interventions)


def _post_s2t(snap, res, **kw):
    from y0.algorithm.transport import get_transport_nodes

    out = {}
    for p, g in res.graphs.items():
        out[_pop_name(p)] = {n.name[2:] for n in get_transport_nodes(g)}
    FACTS["transport_nodes"] = out


def _label(label):
    def post(snap, res, *a, **k):
        FACTS.setdefault("lines", set()).add(label)
        if label == "trso_line10" and a:
            from y0.dsl import TARGET_DOMAIN

            if a[0].domain != TARGET_DOMAIN:
                FACTS["line10_in_source_domain"] = True
                kernel.count("C05:line10:inside-a-source-domain")
            from y0.dsl import Probability, Sum

            e = a[0].expression
            e = e.expression if isinstance(e, Sum) else e
            joint = isinstance(e, Probability) and not e.parents
            kernel.count("C05:line10:working-distribution-" + ("a-joint" if joint else "not-a-joint"))
            if not joint:
                FACTS["line10_not_joint"] = True

    return post


def install(semantic=True, K=2):
    import y0.algorithm.transport as t

    CONFIG.update(semantic=semantic, K=K)
    kernel.install_function(t, "identify_target_outcomes", label="identify_target_outcomes", pre=_pre, post=_post,
                            on_raise=_on_raise)
    kernel.install_function(t, "surrogate_to_transport", label="surrogate_to_transport", post=_post_s2t)
    for fn in ("trso_line1", "trso_line2", "trso_line3", "trso_line4", "trso_line6", "trso_line9", "trso_line10",
               "activate_domain_and_interventions", "_pillow_has_transport"):
        kernel.install_function(t, fn, label=fn, post=_label(fn))
