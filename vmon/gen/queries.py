"""Query generators: (X, Y[, Z]) over a graph description, with hostile quotas."""

from __future__ import annotations


def ancestors(gd, targets):
    pm = {n: set() for n in gd["nodes"]}
    for u, v in gd["di"]:
        pm[v].add(u)
    seen = set(targets)
    st = list(targets)
    while st:
        x = st.pop()
        for p in pm[x]:
            if p not in seen:
                seen.add(p)
                st.append(p)
    return seen


def random_query(rng, gd, max_size=2, with_conditions=False, allow_empty_x=False, cls=None):
    """-> dict(X, Y, Z, cls).  cls in {uniform, nonancestor, cover, isolated_outcome}."""
    nodes = sorted(gd["nodes"])
    n = len(nodes)
    cls = cls or rng.choice(["uniform", "uniform", "uniform", "nonancestor", "cover", "isolated_outcome"])
    sh = nodes[:]
    rng.shuffle(sh)
    ny = rng.randint(1, min(max_size, max(1, n - 1)))
    Y = sh[:ny]
    rest = sh[ny:]
    if cls == "isolated_outcome":
        touched = {x for e in gd["di"] + gd["bi"] for x in e}
        iso = [v for v in nodes if v not in touched]
        if iso:
            Y = [rng.choice(iso)]
            rest = [v for v in nodes if v not in Y]
            rng.shuffle(rest)
    Z = []
    if with_conditions:
        nz = rng.randint(1, min(max_size, max(1, len(rest) - (0 if allow_empty_x else 1))))
        Z = rest[:nz]
        rest = rest[nz:]
    lo = 0 if allow_empty_x else 1
    if not rest and lo == 1:
        # need at least one treatment: steal from Y/Z if possible
        if len(Y) > 1:
            rest = [Y.pop()]
        elif len(Z) > 1:
            rest = [Z.pop()]
        else:
            return None
    nx = rng.randint(lo, min(max_size, len(rest))) if rest else 0
    if cls == "cover":
        X = rest[:]
    elif cls == "nonancestor":
        an = ancestors(gd, Y)
        non = [v for v in rest if v not in an]
        X = non[:max(1, nx)] if non else rest[:nx]
    else:
        X = rest[:nx]
    if not X and lo == 1:
        return None
    return {"X": sorted(X), "Y": sorted(Y), "Z": sorted(Z), "cls": cls}


CALL_FORMS = ("outcomes", "identify", "from_expression", "from_parts", "from_str", "single",
              "outcomes-seq", "outcomes-iter", "from_parts-iter", "raw-graph", "outcomes-kw", "str-graph",
              "str-graph-identify")


def raw_graph(g):
    """The same graph through the public dataclass constructor: the bidirected member holds only the nodes that have a
    bidirected edge (and the directed member only its own), the way ``NxMixedGraph(directed=nx.DiGraph(...))`` does."""
    import networkx as nx
    from y0.graph import NxMixedGraph

    d = nx.DiGraph()
    d.add_nodes_from(g.directed.nodes())
    d.add_edges_from(g.directed.edges())
    return NxMixedGraph(directed=d, undirected=nx.Graph(list(g.undirected.edges())))


def str_graph(g):
    """The same graph over plain STRINGS (a graph read from a table before anybody wrapped the names): the
    identification entry points upgrade the nodes themselves.  None when a node is a counterfactual variable."""
    import networkx as nx
    from y0.dsl import CounterfactualVariable
    from y0.graph import NxMixedGraph

    from .graphs import fresh

    if any(isinstance(n, CounterfactualVariable) for n in g.nodes()):
        return None
    d, u = nx.DiGraph(), nx.Graph()
    for n in g.directed.nodes():
        d.add_node(fresh(n.name))
    for n in g.undirected.nodes():
        u.add_node(fresh(n.name))
    d.add_edges_from((fresh(a.name), fresh(b.name)) for a, b in g.directed.edges())
    u.add_edges_from((fresh(a.name), fresh(b.name)) for a, b in g.undirected.edges())
    return NxMixedGraph(directed=d, undirected=u)


def _held_query(ident, X, Y, Z, form, prop):
    """Driver-side assertion: the Identification a public constructor built holds exactly the query it was given."""
    from .. import kernel

    kernel.count("callform:" + form)
    got = (set(ident.treatments), set(ident.outcomes), set(ident.conditions))
    if got != (X, Y, Z) and prop:
        kernel.violation(prop, "query-construction",
                         f"call form {form}: asked for X={sorted(map(str, X))} Y={sorted(map(str, Y))} "
                         f"Z={sorted(map(str, Z))}, the Identification holds X={sorted(map(str, got[0]))} "
                         f"Y={sorted(map(str, got[1]))} Z={sorted(map(str, got[2]))}")


def call_id(g, q, form, prop=None):
    """Drive ID / IDC through one of the public call forms.  -> estimand or None (refusal); other exceptions propagate.
    q: dict(X, Y, Z) of names.  Forms outside the annotated signatures (one-shot iterables; the annotations say
    ``Variable | set[Variable]`` while the normaliser takes any iterable) and raw dataclass graphs are driven too: their
    *answers* are judged like any other, an exception from them is only counted."""
    from y0.algorithm.identify import Identification, Query, idc, identify, identify_outcomes
    from y0.algorithm.identify.utils import Unidentifiable
    from y0.dsl import P, Variable

    from .. import kernel

    from .graphs import fresh

    X = {Variable(fresh(x)) for x in q["X"]}
    Y = {Variable(fresh(y)) for y in q["Y"]}
    Z = {Variable(fresh(z)) for z in q.get("Z") or []}
    kernel.LOG.case["intended"] = {"X": sorted(q["X"]), "Y": sorted(q["Y"]), "Z": sorted(q.get("Z") or [])}
    if form == "outcomes":
        kernel.count("callform:" + form)
        return identify_outcomes(g, X, Y, Z) if Z else identify_outcomes(g, X, Y)
    if form == "outcomes-kw":
        # every argument by keyword, in another order (as y0's own estimation module calls it)
        kernel.count("callform:" + form)
        if Z:
            return identify_outcomes(conditions=Z, outcomes=Y, graph=g, treatments=X)
        return identify_outcomes(outcomes=Y, graph=g, treatments=X)
    if form == "raw-graph":
        kernel.count("callform:" + form)
        try:
            return identify_outcomes(raw_graph(g), X, Y, Z) if Z else identify_outcomes(raw_graph(g), X, Y)
        except Exception:  # noqa: BLE001
            kernel.count("callform:raw-graph-raised-not-judged")
            return None
    if form in ("str-graph", "str-graph-identify"):
        sg = str_graph(g)
        if sg is None:
            form = "outcomes" if form == "str-graph" else "identify"
        elif form == "str-graph":
            kernel.count("callform:" + form)
            return identify_outcomes(sg, X, Y, Z) if Z else identify_outcomes(sg, X, Y)
        else:
            g = sg
    if form == "outcomes":
        kernel.count("callform:" + form)
        return identify_outcomes(g, X, Y, Z) if Z else identify_outcomes(g, X, Y)
    if form in ("outcomes-seq", "outcomes-iter"):
        kernel.count("callform:" + form)
        k = sum(map(ord, "".join(sorted(q["X"])) + "".join(sorted(q["Y"]))))
        if form == "outcomes-seq":
            mk = [lambda s: sorted(s, key=str), lambda s: tuple(sorted(s, key=str, reverse=True)), frozenset][k % 3]
        else:
            mk = [lambda s: (v for v in sorted(s, key=str)), lambda s: iter(sorted(s, key=str)),
                  lambda s: map(lambda v: v, sorted(s, key=str))][k % 3]
        try:
            return identify_outcomes(g, mk(X), mk(Y), mk(Z)) if Z else identify_outcomes(g, mk(X), mk(Y))
        except TypeError:
            kernel.count("callform:unannotated-form-rejected-not-judged")
            return None
    if form == "single" and len(X) == 1 and len(Y) == 1 and len(Z) <= 1:
        kernel.count("callform:" + form)
        args = (next(iter(X)), next(iter(Y))) + ((next(iter(Z)),) if Z else ())
        return identify_outcomes(g, *args)
    if form == "from_str":
        query = Query.from_str(sorted(q["Y"]), sorted(q["X"]), sorted(q["Z"]) if Z else None)
        ident = Identification(query=query, graph=g)
    elif form == "from_parts":
        ident = Identification.from_parts(outcomes=Y, treatments=X, graph=g, conditions=Z or None)
    elif form == "from_parts-iter":
        try:
            ident = Identification.from_parts(outcomes=iter(sorted(Y, key=str)), treatments=(x for x in sorted(X, key=str)),
                                              graph=g, conditions=iter(sorted(Z, key=str)) if Z else None)
        except TypeError:
            kernel.count("callform:unannotated-form-rejected-not-judged")
            return None
    elif form == "from_expression" and (X or Z):
        ys = sorted(Y, key=str)
        zs = sorted(Z, key=str)
        body = ys[0] if len(ys) == 1 and not zs else (ys if not zs else _dist(ys, zs))
        # without treatments the query is a plain conditional P(Y | Z)
        expr = P[sorted(X, key=str)](body) if X else P(body)
        ident = Identification.from_expression(query=expr, graph=g)
    else:
        form = form if form == "str-graph-identify" else "identify"
        ident = Identification(query=Query(outcomes=Y, treatments=X, conditions=Z), graph=g)
    _held_query(ident, X, Y, Z, form, prop)
    try:
        return idc(ident) if Z else identify(ident)
    except Unidentifiable:
        return None


def _dist(ys, zs):
    d = ys[0]
    for y in ys[1:]:
        d = d & y
    return d | zs
