"""Expression workload generator (DESIGN 2.6) for the DSL properties C10–C13.

Expressions are generated as JSON-able ASTs so every case can be replayed verbatim:

  var  = [name, star, [[iname, istar], ...]]          star in (None, False, True)
  ["P", pop|None, [var...children], [var...parents]]
  ["prod", [e, e, ...]]      raw Product / public  e*e*...
  ["sum", [names], e]        Sum over plain names
  ["frac", n, d]             raw Fraction(n, d) / public n / d
  ["one"] ["zero"] ["q", [domain names], [codomain names]]

``build_raw`` uses the dataclass constructors exactly in the given order/nesting;
``build_public`` uses only the public builders and operators (P, PP, Sum[...], *, /, One(),
Zero(), Q[...]) — what C12 and C13 quantify over.
"""

from __future__ import annotations

NAMES = ["A", "B", "C", "D", "W", "X", "Y", "Z", "X1", "Z2", "M", "X_1", "Y_2", "Pi1"]
POPS = ["π1", "π2", "Pi3"]


# ---------------------------------------------------------------------------------------
# AST -> objects


def mk_var(v):
    from y0.dsl import CounterfactualVariable, Intervention, Variable

    from .graphs import fresh

    name, star, ivs = v
    if ivs:
        return CounterfactualVariable(name=fresh(name), star=star,
                                      interventions=frozenset(Intervention(fresh(n), bool(s)) for n, s in ivs))
    return Variable(fresh(name), star)


def mk_var_public(v):
    """The public way to a (valued, subscripted) variable: +A / -A and the @ operator."""
    from y0.dsl import Variable

    from .graphs import fresh

    name, star, ivs = v
    x = Variable(fresh(name))
    if star is True:
        x = +x
    elif star is False:
        x = -x
    if ivs:
        x = x @ [(+Variable(fresh(n)) if s else -Variable(fresh(n))) for n, s in ivs]
    return x


def build_raw(ast):
    from y0.dsl import Distribution, One, PopulationProbability, Probability, Product, QFactor, Sum, Variable, Zero
    from y0.dsl import Fraction as YF

    t = ast[0]
    if t == "P":
        _, pop, ch, pa = ast
        dist = Distribution(children=tuple(mk_var(v) for v in ch), parents=tuple(mk_var(v) for v in pa))
        if pop is None:
            return Probability(dist)
        return PopulationProbability(population=Variable(pop), distribution=dist)
    if t == "prod":
        return Product(expressions=tuple(build_raw(e) for e in ast[1]))
    if t == "sum":
        return Sum(expression=build_raw(ast[2]), ranges=frozenset(Variable(n) for n in ast[1]))
    if t == "frac":
        return YF(build_raw(ast[1]), build_raw(ast[2]))
    if t == "one":
        return One()
    if t == "zero":
        return Zero()
    if t == "q":
        return QFactor(domain=frozenset(Variable(n) for n in ast[1]), codomain=frozenset(Variable(n) for n in ast[2]))
    raise ValueError(t)


def build_public(ast):
    """Only public builders/operators.  A probability whose variables all share one subscript
    set is built with the level-2 notation P[...](...), otherwise with ``@`` per variable."""
    from y0.dsl import PP, One, P, Q, Sum, Variable, Zero

    t = ast[0]
    if t == "P":
        _, pop, ch, pa = ast
        builder = P if pop is None else PP[Variable(pop)]
        cvars = [mk_var_public(v) for v in ch]
        pvars = [mk_var_public(v) for v in pa]
        dist = cvars[0]
        for c in cvars[1:]:
            dist = dist & c
        if pvars:
            dist = dist | pvars
        elif len(cvars) == 1:
            return builder(cvars[0])
        return builder(dist)
    if t == "prod":
        parts = [build_public(e) for e in ast[1]]
        out = parts[0]
        for p in parts[1:]:
            out = out * p
        return out
    if t == "sum":
        return Sum[tuple(Variable(n) for n in ast[1])](build_public(ast[2]))
    if t == "frac":
        return build_public(ast[1]) / build_public(ast[2])
    if t == "one":
        return One()
    if t == "zero":
        return Zero()
    if t == "q":
        return Q[tuple(Variable(n) for n in ast[2])](tuple(Variable(n) for n in ast[1]))
    raise ValueError(t)


# ---------------------------------------------------------------------------------------
# AST facts


def ast_free(ast) -> set:
    t = ast[0]
    if t == "P":
        return {v[0] for v in ast[2] + ast[3] if v[1] is None}
    if t == "prod":
        out = set()
        for e in ast[1]:
            out |= ast_free(e)
        return out
    if t == "sum":
        return ast_free(ast[2]) - set(ast[1])
    if t == "frac":
        return ast_free(ast[1]) | ast_free(ast[2])
    if t == "q":
        return set(ast[1]) | set(ast[2])
    return set()


def ast_names(ast) -> set:
    t = ast[0]
    if t == "P":
        out = set()
        for v in ast[2] + ast[3]:
            out.add(v[0])
            out |= {i[0] for i in v[2]}
        return out
    if t == "prod":
        out = set()
        for e in ast[1]:
            out |= ast_names(e)
        return out
    if t == "sum":
        return ast_names(ast[2]) | set(ast[1])
    if t == "frac":
        return ast_names(ast[1]) | ast_names(ast[2])
    if t == "q":
        return set(ast[1]) | set(ast[2])
    return set()


def ast_var_names(ast) -> set:
    """Names occurring as a child/parent variable (any star), subscripts excluded."""
    t = ast[0]
    if t == "P":
        return {v[0] for v in ast[2] + ast[3]}
    if t == "prod":
        out = set()
        for e in ast[1]:
            out |= ast_var_names(e)
        return out
    if t == "sum":
        return ast_var_names(ast[2])
    if t == "frac":
        return ast_var_names(ast[1]) | ast_var_names(ast[2])
    if t == "q":
        return set(ast[1]) | set(ast[2])
    return set()


def ast_valued_names(ast) -> set:
    """Names that occur with a value mark as a child/parent somewhere."""
    t = ast[0]
    if t == "P":
        return {v[0] for v in ast[2] + ast[3] if v[1] is not None}
    if t == "prod":
        out = set()
        for e in ast[1]:
            out |= ast_valued_names(e)
        return out
    if t == "sum":
        return ast_valued_names(ast[2])
    if t == "frac":
        return ast_valued_names(ast[1]) | ast_valued_names(ast[2])
    return set()


def ast_well_scoped(ast) -> bool:
    """A Sum range name occurs free and unstarred in the body or not at all (an over-wide range);
    a bound name that the body also mentions with a value mark (a constant) is ill-scoped (DESIGN §3)."""
    t = ast[0]
    if t == "prod":
        return all(ast_well_scoped(e) for e in ast[1])
    if t == "frac":
        return ast_well_scoped(ast[1]) and ast_well_scoped(ast[2])
    if t == "sum":
        body = ast[2]
        valued = ast_valued_names(body)
        return all(n not in valued for n in ast[1]) and ast_well_scoped(body)
    return True


def ast_has(ast, kinds) -> bool:
    t = ast[0]
    if t in kinds:
        return True
    if t == "prod":
        return any(ast_has(e, kinds) for e in ast[1])
    if t == "sum":
        return ast_has(ast[2], kinds)
    if t == "frac":
        return ast_has(ast[1], kinds) or ast_has(ast[2], kinds)
    return False


def ast_depth(ast) -> int:
    t = ast[0]
    if t == "prod":
        return 1 + max(ast_depth(e) for e in ast[1])
    if t == "sum":
        return 1 + ast_depth(ast[2])
    if t == "frac":
        return 1 + max(ast_depth(ast[1]), ast_depth(ast[2]))
    return 0


def may_be_zero(ast) -> bool:
    """Could the expression denote 0 identically (syntactic zero somewhere in a product/numerator)?"""
    t = ast[0]
    if t == "zero":
        return True
    if t == "prod":
        return any(may_be_zero(e) for e in ast[1])
    if t == "sum":
        return may_be_zero(ast[2])
    if t == "frac":
        return may_be_zero(ast[1])
    return False


# ---------------------------------------------------------------------------------------
# random ASTs


def rand_var(rng, name, opts, iv_pool=None, shared_ivs=None):
    star = None
    if opts.get("marks") and rng.random() < 0.15:
        star = rng.random() < 0.5
    ivs = []
    if shared_ivs is not None:
        ivs = shared_ivs
    elif opts.get("multiworld") and iv_pool and rng.random() < 0.2:
        k = rng.randint(1, min(2, len(iv_pool)))
        ivs = sorted([n, rng.random() < 0.3] for n in rng.sample(iv_pool, k))
    return [name, star, [list(i) for i in ivs]]


def rand_prob(rng, names, opts):
    k = rng.choice([1, 1, 2, 2, 3])
    k = min(k, len(names))
    m = rng.choice([0, 0, 1, 1, 2])
    m = min(m, len(names) - k)
    picked = rng.sample(names, k + m)
    rest = [n for n in names if n not in picked]
    shared = None
    if opts.get("interventions") and rest and rng.random() < 0.3:
        kk = rng.randint(1, min(2, len(rest)))
        shared = sorted([n, rng.random() < 0.3] for n in rng.sample(rest, kk))
        if opts.get("reflexive") and rng.random() < 0.25:
            shared = sorted(shared + [[rng.choice(picked), rng.random() < 0.3]])  # X under an intervention on X itself
    elif opts.get("multiworld"):
        shared = None
    else:
        shared = []
    if opts.get("overlap") and rng.random() < 0.3:
        # one name in two roles inside one probability: the subscript value of one variable is another variable of the
        # same term (P(Y @ -X, X)), or an outcome returns among the conditions in another world (P(Y @ -X | Y))
        ch = [rand_var(rng, n, dict(opts, multiworld=True), [x for x in picked if x != n] + rest, None) for n in picked[:k]]
        pa = [rand_var(rng, n, dict(opts, multiworld=True), [x for x in picked if x != n] + rest, None) for n in picked[k:]]
        if ch and rng.random() < 0.4:
            twin = rng.choice(ch)
            other = [twin[0], None, [] if twin[2] else [[rng.choice([x for x in names if x != twin[0]] or [twin[0]]), False]]]
            if other[2] != twin[2] and all(not (v[0] == other[0] and v[2] == other[2]) for v in pa + ch):
                pa = pa + [other]
        pop = None
        if opts.get("populations") and rng.random() < 0.2:
            pop = rng.choice(POPS[: opts.get("npops", 3)])
        return ["P", pop, ch, pa]
    ch = [rand_var(rng, n, opts, rest, shared) for n in picked[:k]]
    pa = [rand_var(rng, n, opts, rest, shared) for n in picked[k:]]
    pop = None
    if opts.get("populations") and rng.random() < 0.2:
        pop = rng.choice(POPS[: opts.get("npops", 3)])
    if not opts.get("sorted_vars", False):
        rng.shuffle(ch)
        rng.shuffle(pa)
    else:
        ch.sort(key=lambda v: (v[0], _ivkey(v)))
        pa.sort(key=lambda v: (v[0], _ivkey(v)))
    return ["P", pop, ch, pa]


def _ivkey(v):
    return ",".join(("+" if s else "-") + n for n, s in v[2])


def rand_ast(rng, depth, names, opts):
    """Random well-scoped AST of nesting depth <= depth."""
    if depth <= 0:
        r = rng.random()
        if opts.get("constants") and r < 0.05:
            return ["one"]
        if opts.get("constants") and r < 0.08:
            return ["zero"]
        if opts.get("qfactors") and r < 0.14:
            k = rng.randint(1, min(2, len(names) - 1))
            picked = rng.sample(names, k + 1)
            return ["q", sorted(picked[:k]), sorted(picked[k:])]
        return rand_prob(rng, names, opts)
    r = rng.random()
    if r < 0.34:
        n = rng.choice([2, 2, 3])
        return ["prod", [rand_ast(rng, rng.randint(0, depth - 1), names, opts) for _ in range(n)]]
    if r < 0.62:
        body = rand_ast(rng, depth - 1, names, opts)
        fv = sorted(ast_free(body) - ast_valued_names(body))
        if ast_has(body, {"q"}):
            fv = [n for n in fv if n not in _q_names(body)]
        if not fv:
            return body
        k = rng.randint(1, min(2, len(fv)))
        ranges = sorted(rng.sample(fv, k))
        if opts.get("overwide_sum") and rng.random() < 0.08:
            extra = [n for n in names if n not in ast_names(body)]
            if extra:
                ranges = sorted(ranges + [rng.choice(extra)])
        return ["sum", ranges, body]
    if r < 0.9:
        num = rand_ast(rng, rng.randint(0, depth - 1), names, opts)
        den = rand_ast(rng, rng.randint(0, depth - 1), names, opts)
        tries = 0
        while may_be_zero(den) and tries < 5:
            den = rand_ast(rng, rng.randint(0, depth - 1), names, dict(opts, constants=False))
            tries += 1
        if may_be_zero(den):
            return num
        if opts.get("equal_fractions") and rng.random() < 0.1:
            den = num if not may_be_zero(num) else den
        return ["frac", num, den]
    return rand_ast(rng, depth - 1, names, opts)


def rand_fracnest(rng, atoms, depth):
    """Random nesting of products and fractions over a SMALL pool of atoms (with replacement), so that
    numerators and denominators coincide or cancel after multiplying out -- the class in which a
    canonical form is most likely to need a second pass."""
    if depth <= 0 or rng.random() < 0.25:
        return rng.choice(atoms)
    if rng.random() < 0.45:
        return ["prod", [rand_fracnest(rng, atoms, depth - 1) for _ in range(rng.choice([2, 2, 3]))]]
    return ["frac", rand_fracnest(rng, atoms, depth - 1), rand_fracnest(rng, atoms, depth - 1)]


def rand_repeated_fraction(rng, atoms):
    """(N1/D1) / (N2/D2) (or a product of two such fractions) whose four parts are multisets over a small pool of atoms,
    so that after cross-multiplication one factor stands several times on one side and at least once on the other: the
    cancellation must remove one copy per copy, never all of them."""
    def part(lo):
        k = rng.randint(lo, 3)
        xs = [rng.choice(atoms) for _ in range(k)]
        if not xs:
            return ["one"]
        return xs[0] if len(xs) == 1 else ["prod", xs]

    f1 = ["frac", part(1), part(0)]
    f2 = ["frac", part(1), part(0)]
    return ["frac", f1, f2] if rng.random() < 0.7 else ["prod", [f1, f2]]


def _q_names(ast):
    t = ast[0]
    if t == "q":
        return set(ast[1]) | set(ast[2])
    if t == "prod":
        out = set()
        for e in ast[1]:
            out |= _q_names(e)
        return out
    if t == "sum":
        return _q_names(ast[2])
    if t == "frac":
        return _q_names(ast[1]) | _q_names(ast[2])
    return set()


def rand_expr_ast(rng, opts=None, max_depth=4, n_names=None):
    opts = dict(opts or {})
    n = n_names or rng.randint(3, 6)
    names = rng.sample(NAMES, n)
    depth = rng.choice([1, 2, 2, 3, 3, max_depth])
    return rand_ast(rng, depth, names, opts)


# ---------------------------------------------------------------------------------------
# presentation permutations (C11): same expression, other order of factors / nesting of
# products / order of variables on either side of the bar / order of ranges


def permute(ast, rng):
    t = ast[0]
    if t == "P":
        ch = [list(v) for v in ast[2]]
        pa = [list(v) for v in ast[3]]
        rng.shuffle(ch)
        rng.shuffle(pa)
        return ["P", ast[1], ch, pa]
    if t == "prod":
        parts = [permute(e, rng) for e in _flatten(ast)]
        rng.shuffle(parts)
        return _renest(parts, rng)
    if t == "sum":
        r = list(ast[1])
        rng.shuffle(r)
        return ["sum", r, permute(ast[2], rng)]
    if t == "frac":
        return ["frac", permute(ast[1], rng), permute(ast[2], rng)]
    return list(ast)


def _flatten(ast):
    out = []
    for e in ast[1]:
        if e[0] == "prod":
            out.extend(_flatten(e))
        else:
            out.append(e)
    return out


def _renest(parts, rng):
    if len(parts) <= 2 or rng.random() < 0.5:
        return ["prod", parts]
    k = rng.randint(1, len(parts) - 1)
    left, right = parts[:k], parts[k:]
    groups = []
    for g in (left, right):
        groups.append(g[0] if len(g) == 1 else _renest(g, rng))
    return ["prod", groups]


# ---------------------------------------------------------------------------------------
# semantic edits (C10 equality clause): b differs from a in *meaning* (almost surely)


def semantic_edit(ast, rng, names):
    """One random meaning-changing edit somewhere in the AST, or None."""
    import copy

    a = copy.deepcopy(ast)
    sites = []

    def walk(node, path):
        sites.append((node, path))
        t = node[0]
        if t == "prod":
            for i, e in enumerate(node[1]):
                walk(e, path + [(1, i)])
        elif t == "sum":
            walk(node[2], path + [(2, None)])
        elif t == "frac":
            walk(node[1], path + [(1, None)])
            walk(node[2], path + [(2, None)])

    walk(a, [])
    rng.shuffle(sites)
    out = _edit_once(a, sites, rng, names)
    if out is not None and not ast_well_scoped(out):
        return None
    return out


def _edit_once(a, sites, rng, names):
    for node, _ in sites:
        t = node[0]
        r = rng.random()
        if t == "P":
            if r < 0.25 and node[3]:
                node[2].append(node[3].pop())  # move a variable across the bar
                return a
            if r < 0.5:
                v = rng.choice(node[2] + node[3])
                other = [n for n in names if n not in {x[0] for x in node[2] + node[3]}]
                if other:
                    v[0] = rng.choice(other)  # rename one occurrence
                    return a
            if r < 0.65:
                v = rng.choice(node[2] + node[3])
                v[1] = {None: True, True: False, False: None}[v[1]]  # change the value mark
                return a
            if r < 0.8:
                node[1] = rng.choice([p for p in POPS + [None] if p != node[1]])  # other population
                return a
            if len(node[2]) > 1:
                node[2].pop()  # drop a child
                return a
        elif t == "sum" and len(node[1]) > 1 and r < 0.6:
            node[1].pop(rng.randrange(len(node[1])))  # drop a range variable
            return a
        elif t == "frac" and r < 0.6:
            node[1], node[2] = node[2], node[1]  # flip
            if may_be_zero(node[2]):
                node[1], node[2] = node[2], node[1]
                continue
            return a
        elif t == "prod" and len(node[1]) > 2 and r < 0.5:
            node[1].pop(rng.randrange(len(node[1])))  # drop a factor
            return a
    return None


# ---------------------------------------------------------------------------------------
# exact serialisation of y0 objects (independent of y0's printers)


def to_src(x) -> str:
    from y0.dsl import (CounterfactualVariable, Distribution, Intervention, One, PopulationProbability, Probability,
                        Product, QFactor, Sum, Variable, Zero)
    from y0.dsl import Fraction as YF

    if isinstance(x, CounterfactualVariable):
        ivs = ", ".join(to_src(i) for i in sorted(x.interventions, key=lambda i: (i.name, i.star)))
        return f"CounterfactualVariable(name={x.name!r}, star={x.star!r}, interventions=frozenset([{ivs}]))"
    if isinstance(x, Intervention):
        return f"Intervention({x.name!r}, {x.star!r})"
    if isinstance(x, Variable):
        return f"Variable({x.name!r}, {x.star!r})"
    if isinstance(x, Distribution):
        return (f"Distribution(children=({''.join(to_src(c) + ', ' for c in x.children)}), "
                f"parents=({''.join(to_src(c) + ', ' for c in x.parents)}))")
    if isinstance(x, PopulationProbability):
        return f"PopulationProbability(population={to_src(x.population)}, distribution={to_src(x.distribution)})"
    if isinstance(x, Probability):
        return f"Probability({to_src(x.distribution)})"
    if isinstance(x, Product):
        return f"Product(expressions=({''.join(to_src(e) + ', ' for e in x.expressions)}))"
    if isinstance(x, Sum):
        rs = ", ".join(to_src(r) for r in sorted(x.ranges, key=lambda v: v.name))
        return f"Sum(expression={to_src(x.expression)}, ranges=frozenset([{rs}]))"
    if isinstance(x, YF):
        return f"Fraction({to_src(x.numerator)}, {to_src(x.denominator)})"
    if isinstance(x, One):
        return "One()"
    if isinstance(x, Zero):
        return "Zero()"
    if isinstance(x, QFactor):
        d = ", ".join(to_src(r) for r in sorted(x.domain, key=lambda v: v.name))
        c = ", ".join(to_src(r) for r in sorted(x.codomain, key=lambda v: v.name))
        return f"QFactor(domain=frozenset([{d}]), codomain=frozenset([{c}]))"
    raise TypeError(type(x))


def from_src(s: str):
    import y0.dsl as d

    ns = {k: getattr(d, k) for k in ("CounterfactualVariable", "Distribution", "Intervention", "One",
                                     "PopulationProbability", "Probability", "Product", "QFactor", "Sum", "Variable",
                                     "Zero", "Fraction")}
    return eval(s, {"__builtins__": {"frozenset": frozenset}}, ns)  # noqa: S307
