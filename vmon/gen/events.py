"""Counterfactual-event workload generator (DESIGN 2.6).

An event is a JSON-able list of conjuncts  [name, [[iname, istar], ...], vstar] :
"variable ``name`` under interventions (iname := + if istar else -) takes value (+ if vstar else -)".
"""

from __future__ import annotations

from .queries import ancestors

CLASSES = ("uniform", "uniform", "same_base_two_worlds", "with_factual", "irrelevant_subscript", "reflexive_consistent",
           "reflexive_inconsistent", "worlds_differ_irrelevantly", "contradictory_pair", "single", "observe_subscripts",
           "observe_subscripts", "cross_world")


def _conj(rng, gd, name=None, max_subs=2, world=None):
    nodes = sorted(gd["nodes"])
    name = name or rng.choice(nodes)
    if world is None:
        others = [v for v in nodes if v != name]
        k = rng.choice([0, 1, 1, 2]) if others else 0
        k = min(k, max_subs, len(others))
        world = sorted([v, rng.random() < 0.35] for v in rng.sample(others, k))
    return [name, [list(w) for w in world], rng.random() < 0.4]


def random_event(rng, gd, cls=None, max_items=3):
    """-> (event, cls).  Keys of the event (name, world) are distinct."""
    nodes = sorted(gd["nodes"])
    cls = cls or rng.choice(CLASSES)
    n_items = 1 if cls == "single" else rng.randint(1, max_items)
    ev = []
    if cls == "same_base_two_worlds" and len(nodes) >= 2:
        y = rng.choice(nodes)
        others = [v for v in nodes if v != y]
        x = rng.choice(others)
        ev.append([y, [[x, False]], rng.random() < 0.5])
        ev.append([y, [[x, True]] if rng.random() < 0.6 else [], rng.random() < 0.5])
    elif cls == "with_factual":
        ev.append([rng.choice(nodes), [], rng.random() < 0.5])
        ev.append(_conj(rng, gd))
    elif cls == "irrelevant_subscript" and len(nodes) >= 2:
        y = rng.choice(nodes)
        non = [v for v in nodes if v not in ancestors(gd, [y])]
        if non:
            sub = [[rng.choice(non), rng.random() < 0.4]]
            rel = [v for v in ancestors(gd, [y]) if v != y]
            if rel and rng.random() < 0.5:
                sub.append([rng.choice(rel), rng.random() < 0.4])
            ev.append([y, sorted(sub), rng.random() < 0.4])
    elif cls in ("reflexive_consistent", "reflexive_inconsistent"):
        x = rng.choice(nodes)
        star = rng.random() < 0.5
        extra = [[v, rng.random() < 0.3] for v in nodes if v != x and rng.random() < 0.25][:1]
        ev.append([x, sorted([[x, star]] + extra), star if cls == "reflexive_consistent" else not star])
    elif cls == "worlds_differ_irrelevantly" and len(nodes) >= 3:
        y = rng.choice(nodes)
        an = [v for v in ancestors(gd, [y]) if v != y]
        non = [v for v in nodes if v not in ancestors(gd, [y])]
        if an and non:
            x, z = rng.choice(an), rng.choice(non)
            s = rng.random() < 0.3
            ev.append([y, [[x, s]], rng.random() < 0.5])
            ev.append([y, sorted([[x, s], [z, rng.random() < 0.5]]), rng.random() < 0.5])
    elif cls == "observe_subscripts" and len(nodes) >= 2:
        # Y under interventions on (preferably) its parents, plus the observed values of those variables in the
        # factual world: equal to the setting (composition/merging applies) or different or absent
        pm = {n: [u for u, v in gd["di"] if v == n] for n in nodes}
        cands = [n for n in nodes if pm[n]] or nodes
        y = rng.choice(cands)
        pool = pm[y] if pm[y] and rng.random() < 0.8 else [v for v in nodes if v != y]
        subs = sorted([v, rng.random() < 0.4] for v in rng.sample(pool, min(len(pool), rng.choice([1, 2, 2]))))
        ev.append([y, subs, rng.random() < 0.4])
        for v, s in subs:
            r = rng.random()
            world = []
            if rng.random() < 0.35:  # observe it through an alias: a world that sets a non-ancestor of v
                non = [d for d in nodes if d not in ancestors(gd, [v]) and d != y]
                if non:
                    world = [[rng.choice(non), rng.random() < 0.3]]
            if r < 0.55:
                ev.append([v, world, s])
            elif r < 0.8:
                ev.append([v, world, not s])
        if rng.random() < 0.45:  # the same variable also in the factual world
            ev.append([y, [], rng.random() < 0.5])
        n_items = max(n_items, len(ev))
    elif cls == "cross_world" and len(nodes) >= 3:
        # two (or three) different variables under opposite settings of one common variable, preferably an ancestor
        x = rng.choice(nodes)
        desc = [v for v in nodes if v != x and x in ancestors(gd, [v])]
        pool = desc if len(desc) >= 2 and rng.random() < 0.8 else [v for v in nodes if v != x]
        picked = rng.sample(pool, min(len(pool), rng.choice([2, 2, 3])))
        for j, v in enumerate(picked):
            ev.append([v, [[x, bool(j % 2)]], rng.random() < 0.4])
        n_items = max(n_items, len(ev))
    elif cls == "contradictory_pair":
        c = _conj(rng, gd)
        ev.append(c)
        ev.append([c[0], [list(w) for w in c[1]], not c[2]])
        return ev, cls  # same key twice: callers that need a dict-shaped event skip it
    while len(ev) < n_items:
        ev.append(_conj(rng, gd))
    # distinct keys
    out, seen = [], set()
    for c in ev:
        k = (c[0], tuple(map(tuple, c[1])))
        if k not in seen:
            seen.add(k)
            out.append(c)
    return out, cls


def var_of(conj):
    from y0.dsl import CounterfactualVariable, Intervention, Variable

    from .graphs import fresh

    name, world, _ = conj
    if world:
        return CounterfactualVariable(name=fresh(name), star=None,
                                      interventions=frozenset(Intervention(fresh(n), bool(s)) for n, s in world))
    return Variable(fresh(name))


def to_event(ev):
    """dict[Variable, Intervention] as y0's ID*/cg functions take it."""
    from y0.dsl import Intervention
    from .graphs import fresh

    return {var_of(c): Intervention(fresh(c[0]), bool(c[2])) for c in ev}


def to_pairs(ev):
    """list[(Variable, Intervention)] as the counterfactual-transport functions take it."""
    from y0.dsl import Intervention
    from .graphs import fresh

    return [(var_of(c), Intervention(fresh(c[0]), bool(c[2]))) for c in ev]


def from_event(event) -> list:
    """JSON form of a y0 event (dict or list of pairs); a value of None is kept as None."""
    items = event.items() if isinstance(event, dict) else event
    out = []
    for var, val in items:
        world = sorted([i.name, bool(i.star)] for i in getattr(var, "interventions", ()) or ())
        out.append([var.name, world, None if val is None else bool(val.star)])
    return sorted(out, key=lambda c: (c[0], c[1], str(c[2])))


def key(ev):
    return ";".join(f"{n}@{','.join(('+' if s else '-') + i for i, s in w)}={'+' if v else '-'}" for n, w, v in sorted(ev))


def model_events(ev, ref, alt):
    """O1 form: [(do dict, node, value)] with literal subscripts."""
    out = []
    for name, world, v in ev:
        do = {i: (alt[i] if s else ref[i]) for i, s in world}
        out.append((do, name, alt[name] if v else ref[name]))
    return out
