"""Workload generators for graphs (DESIGN 2.6).  Graph descriptions are JSON-able dicts
{"nodes": [names in insertion order], "di": [[u,v]..], "bi": [[u,v]..]} so that every case
can be written to a replay file verbatim."""

from __future__ import annotations

import itertools as itt

DENSITIES = (0.2, 0.35, 0.5, 0.7)
HOSTILE = ("isolated", "bionly", "bow", "bichain", "multidistrict", "onedistrict", "names_unsorted", "none")
# "deepcollider" is requested explicitly by the separation workloads


ALLOW_ODD = False  # graph-level workloads switch this on: node names that are not Python identifiers (IL-6, HLA DR)
ALLOW_PREFIXED = True  # transport / counterfactual-transport workloads switch this off: there a name T_x IS a selection node


def names(n, rng=None, unsorted=False, prefixed=False):
    if prefixed:
        # names that collide with prefixes the library introduces itself (transport nodes T_..., latents u_...)
        pool = ["T_1", "u_0", "V2", "T_V3", "V1", "u_1", "V0", "T_cells", "V4"]
        return pool[:n]
    if unsorted:
        pool = ["V10", "V2", "V1", "V11", "V3", "V20", "V0", "V4", "V12"]
        return pool[:n]
    return [f"V{i}" for i in range(n)]


def random_admg(rng, n, hostile=None, p_di=None, p_bi=None):
    """Random ADMG description; ``hostile`` forces one of the hostile classes."""
    if hostile is None:
        hostile = rng.choice(HOSTILE + (("names_prefixed",) if ALLOW_PREFIXED else ()) + (("names_odd",) if ALLOW_ODD else ()))
    nm = names(n, rng, unsorted=(hostile == "names_unsorted"), prefixed=(hostile == "names_prefixed" and ALLOW_PREFIXED))
    if hostile == "names_odd" and n <= 9:
        # names a biologist would use: not identifiers, with blanks, dashes, digits first, mixed case
        nm = ["IL-6", "STAT3", "HLA DR", "TNF", "NF-kB", "9p21", "p53", "Variable", "a b"][:n]
        r_ = rng.random()
        if r_ < 0.3:
            # names that differ by leading zeros or by the length of a trailing number only
            nm = ["L1", "L01", "X2", "X10", "L001", "X02", "L10", "X1", "L2"][:n]
        elif r_ < 0.45:
            # labels with ", " inside: two different pairs of them can print as the same text
            nm = ["BMI", "baseline, smoker", "BMI, baseline", "smoker", "age, sex", "age", "sex", "a, b, c", "b, c"][:n]
        elif r_ < 0.6:
            # names that are equal under Unicode compatibility normalisation (and still different strings)
            nm = ["C1", "C\u2081", "\u00b5", "\u03bc", "X", "\uff38", "K", "\u212a", "Y"][:n]
        elif r_ < 0.7:
            # names with outer blanks, and the library's own latent prefix with a sign
            nm = ["C", "C ", " Z", "Z", "u_-1", "u_-2", " ", "Y", "X"][:n]
    order = nm[:]
    rng.shuffle(order)  # topological order
    p_di = rng.choice(DENSITIES) if p_di is None else p_di
    p_bi = rng.choice(DENSITIES) if p_bi is None else p_bi
    di = [[order[i], order[j]] for i in range(n) for j in range(i + 1, n) if rng.random() < p_di]
    bi = [[order[i], order[j]] for i in range(n) for j in range(i + 1, n) if rng.random() < p_bi]
    if hostile == "isolated" and n >= 2:
        k = rng.randint(1, max(1, n // 3))
        iso = set(rng.sample(nm, k))
        di = [e for e in di if not (set(e) & iso)]
        bi = [e for e in bi if not (set(e) & iso)]
    elif hostile == "bionly" and n >= 2:
        v = rng.choice(nm)
        di = [e for e in di if v not in e]
        if not any(v in e for e in bi):
            w = rng.choice([x for x in nm if x != v])
            bi.append([v, w])
    elif hostile == "bow" and di:
        e = rng.choice(di)
        if e not in bi and e[::-1] not in bi:
            bi.append(list(e))
    elif hostile == "bichain" and n >= 3:
        chain = rng.sample(order, min(n, rng.randint(3, 4)))
        for a, b in zip(chain, chain[1:]):
            if [a, b] not in bi and [b, a] not in bi:
                bi.append([a, b])
        pos = {v: i for i, v in enumerate(order)}
        for mid in chain[1:-1]:
            later = [v for v in order if pos[v] > pos[mid]]
            if later:
                c = rng.choice(later)
                if [mid, c] not in di:
                    di.append([mid, c])
    elif hostile == "multidistrict":
        rng.shuffle(bi)
        bi = bi[: max(0, n - 3)]
        # keep at least three districts: drop edges until so
        while bi and _n_districts(nm, bi) < min(3, n):
            bi.pop()
    elif hostile == "onedistrict" and n >= 2:
        sh = order[:]
        rng.shuffle(sh)
        for a, b in zip(sh, sh[1:]):
            if [a, b] not in bi and [b, a] not in bi:
                bi.append([a, b])
    hint = None
    if hostile == "deepcollider" and n >= 5:
        # a *-> m <-* b with a directed chain m -> d1 -> d2 below the collider; only d2 conditioned
        a, b, m, d1, d2 = (order[i] for i in sorted(rng.sample(range(n), 5)))
        keep = {a, b, m, d1, d2}
        di = [e for e in di if not (set(e) <= keep)]
        bi = [e for e in bi if not (set(e) <= keep)]
        for src in (a, b):
            (bi if rng.random() < 0.4 else di).append([src, m])
        di += [[m, d1], [d1, d2]]
        if rng.random() < 0.3:
            bi.append([m, d1])
        hint = {"a": a, "b": b, "C": [d2]}
    ins = nm[:]
    rng.shuffle(ins)
    rng.shuffle(di)
    rng.shuffle(bi)
    out = {"nodes": ins, "di": di, "bi": bi, "hostile": hostile}
    if hint:
        out["hint"] = hint
    return out


def _n_districts(nm, bi):
    parent = {v: v for v in nm}

    def find(x):
        while parent[x] != x:
            x = parent[x]
        return x

    for a, b in bi:
        parent[find(a)] = find(b)
    return len({find(v) for v in nm})


def permuted(gd, rng):
    """The same graph with another insertion order of nodes and edges (and flipped bidirected pairs)."""
    ins = gd["nodes"][:]
    rng.shuffle(ins)
    di = [list(e) for e in gd["di"]]
    rng.shuffle(di)
    bi = [list(e) if rng.random() < 0.5 else list(e)[::-1] for e in gd["bi"]]
    rng.shuffle(bi)
    out = dict(gd)
    out.update(nodes=ins, di=di, bi=bi)
    return out


def fresh(name):
    """An equal but DISTINCT str object (names read from a file are never the interned constants a script types, so code
    that compares names with ``is`` must not get away with it); one-character strings are always shared in CPython."""
    return "".join(list(name)) if isinstance(name, str) else name


def node(name):
    """The y0 node a description name stands for: a plain Variable, or - "A@-B" / "A@+B" - the counterfactual
    variable A under the intervention -B / +B (a second node with the same ``.name``).  Every name is a fresh
    str object."""
    from y0.dsl import Variable

    if "@" not in name:
        return Variable(fresh(name))
    base, iv = name.split("@", 1)
    return Variable(fresh(base)) @ (-Variable(fresh(iv[1:])) if iv[0] == "-" else +Variable(fresh(iv[1:])))


def two_cf_worlds(gd, rng):
    """twin_worlds with the first copy counterfactual as well (A@+x and A@-x): every node is a counterfactual variable,
    every name occurs twice."""
    tw = twin_worlds(gd, rng)
    x = next(n for n in tw["nodes"] if "@" in n).split("@-")[1]

    def m(n):
        return n if "@" in n else f"{n}@+{x}"

    return {"nodes": [m(n) for n in tw["nodes"]], "di": [[m(a), m(b)] for a, b in tw["di"]],
            "bi": [[m(a), m(b)] for a, b in tw["bi"]], "hostile": "two-cf-worlds"}


def twin_worlds(gd, rng):
    """Two copies of an ADMG in one graph, the second over counterfactual variables A@-x (same ``.name`` as A), joined
    by bidirected edges between the copies - the shape of a parallel-worlds graph, built without y0's help."""
    x = rng.choice(gd["nodes"])
    tw = {n: f"{n}@-{x}" for n in gd["nodes"]}
    nodes = list(gd["nodes"]) + [tw[n] for n in gd["nodes"]]
    di = [list(e) for e in gd["di"]] + [[tw[u], tw[v]] for u, v in gd["di"] if v != x]
    bi = [list(e) for e in gd["bi"]] + [[tw[u], tw[v]] for u, v in gd["bi"] if x not in (u, v)]
    for n in gd["nodes"]:
        if n != x and rng.random() < 0.6:
            bi.append([n, tw[n]])
    for u, v in gd["bi"]:
        if x not in (u, v) and rng.random() < 0.5:
            bi.append([u, tw[v]])
    if rng.random() < 0.5:
        rng.shuffle(nodes)
    return {"nodes": nodes, "di": di, "bi": bi, "hostile": "twin-worlds"}


def huge_sparse(rng, n=None, density=None):
    """A sparse ADMG on 64..160 nodes (thresholds on node and edge counts live up there)."""
    n = n or rng.choice([64, 65, 80, 100, 128, 129, 160])
    nm = [f"N{i:03d}" for i in range(n)]
    order = nm[:]
    rng.shuffle(order)
    lo, hi = density or (1.0, 3.0)
    k_di, k_bi = rng.randint(int(lo * n), int(hi * n)), rng.randint(n // 4, n)
    di, bi = set(), set()
    while len(di) < k_di:
        i, j = sorted(rng.sample(range(n), 2))
        di.add((order[i], order[j]))
    while len(bi) < k_bi:
        a, b = rng.sample(nm, 2)
        if (b, a) not in bi:
            bi.add((a, b))
    return {"nodes": nm if rng.random() < 0.5 else order, "di": [list(e) for e in sorted(di)],
            "bi": [list(e) for e in sorted(bi)], "hostile": "huge-sparse"}


def embed_wide(gd, rng, total, p_di=None, p_bi=None):
    """``gd`` (the core) embedded in a graph on ``total`` nodes: padding nodes W0.. are interleaved into the core's
    topological order and wired to the core and to each other at random (acyclic).  -> (wide description, padding names)"""
    pad = [f"W{i}" for i in range(total - len(gd["nodes"]))]
    from ..refgraph import RG

    order = [str(v) for v in RG.make(gd["nodes"], [tuple(e) for e in gd["di"]], []).topological_order()]
    for w in pad:
        order.insert(rng.randint(0, len(order)), w)
    pos = {v: i for i, v in enumerate(order)}
    di = [list(e) for e in gd["di"]]
    bi = [list(e) for e in gd["bi"]]
    if p_di is None:
        p_di, p_bi = rng.choice((0.1, 0.2, 0.3)), rng.choice((0.03, 0.08, 0.15))
    for w in pad:
        for v in order:
            if v == w or (v in pad and pos[v] < pos[w]):
                continue  # pad-pad pairs once
            a, b = (w, v) if pos[w] < pos[v] else (v, w)
            if rng.random() < p_di:
                di.append([a, b])
            if rng.random() < p_bi:
                bi.append([a, b] if rng.random() < 0.5 else [b, a])
    nodes = list(gd["nodes"]) + pad
    rng.shuffle(nodes)
    rng.shuffle(di)
    rng.shuffle(bi)
    return {"nodes": nodes, "di": di, "bi": bi, "hostile": "wide:" + str(gd.get("hostile"))}, pad


ANNOTATE = True

_WEIGHTS = (None, 0, -2, 3.5, "heavy", float("inf"), float("nan"))


def to_nx(gd, mode=None):
    """``_to_nx`` and then, for two descriptions in five (checksum-chosen, or when the description says
    ``annotate``), node and edge ATTRIBUTES on the networkx graphs the NxMixedGraph holds (weight=None / 0 / negative /
    text / inf / nan, a label, a node colour) - what a graph read from a table or converted from another networkx graph
    carries.  Attributes are not part of the causal diagram: every answer must be what it is without them."""
    g = _to_nx(gd, mode)
    k = sum(map(ord, "".join(gd["nodes"]) + "".join(a + b for a, b in gd["di"] + gd["bi"])))
    if ANNOTATE and (gd.get("annotate") or k % 5 in (1, 3)):
        i = k
        for graph in (g.directed, g.undirected):
            for u, v, data in graph.edges(data=True):
                i += 1
                data["weight"] = _WEIGHTS[i % len(_WEIGHTS)]
                if i % 3 == 0:
                    data["label"] = f"{u}-{v}"
                if i % 4 == 0:
                    data["capacity"] = 0
            for n, data in graph.nodes(data=True):
                i += 1
                if i % 2:
                    data["color"] = ("red", None, 0)[i % 3]
        from .. import kernel
        kernel.count("graph:annotated-with-edge-and-node-data")
    return g


def _to_nx(gd, mode=None):
    """Build the real y0 NxMixedGraph, honouring the insertion order of the description.  The construction path is a
    workload dimension: the add_* mutators, from_edges, from_str_edges (with a full or a partial nodes= list), from_adj and from_str_adj (chosen by a
    hash-seed independent checksum of the description unless ``mode`` is given)."""
    from y0.dsl import Variable
    from y0.graph import NxMixedGraph

    if mode is None:
        mode = sum(map(ord, "".join(gd["nodes"]) + "".join(a + b for a, b in gd["di"] + gd["bi"]))) % 9
    V = node
    if mode in (7, 8):
        # from_edges / from_str_edges with a PARTIAL ``nodes=`` list: the nodes without any edge (they must be named)
        # and every other node of the description (named or not, the edges bring the rest)
        touched = {x for e in gd["di"] + gd["bi"] for x in e}
        part = [n for i, n in enumerate(gd["nodes"]) if n not in touched or i % 2 == 0]
        if mode == 8 and not any("@" in n for n in gd["nodes"]):
            return NxMixedGraph.from_str_edges(nodes=part, directed=[tuple(e) for e in gd["di"]],
                                               undirected=[tuple(e) for e in gd["bi"]])
        return NxMixedGraph.from_edges(nodes=[V(n) for n in part], directed=[(V(u), V(v)) for u, v in gd["di"]],
                                       undirected=[(V(u), V(v)) for u, v in gd["bi"]])
    if mode in (4, 6) and any("@" in n for n in gd["nodes"]):
        mode = 3  # the from_str_* constructors cannot name a counterfactual variable
    if mode == 3:
        return NxMixedGraph.from_edges(nodes=[V(n) for n in gd["nodes"]], directed=[(V(u), V(v)) for u, v in gd["di"]],
                                       undirected=[(V(u), V(v)) for u, v in gd["bi"]])
    if mode == 4:
        return NxMixedGraph.from_str_edges(nodes=list(gd["nodes"]), directed=[tuple(e) for e in gd["di"]],
                                           undirected=[tuple(e) for e in gd["bi"]])
    if mode in (5, 6):
        dadj: dict = {}
        uadj: dict = {}
        for u, v in gd["di"]:
            dadj.setdefault(u, []).append(v)
        for u, v in gd["bi"]:
            uadj.setdefault(u, []).append(v)
        if mode == 5:
            return NxMixedGraph.from_adj(nodes=[V(n) for n in gd["nodes"]],
                                         directed={V(k): [V(x) for x in vs] for k, vs in dadj.items()},
                                         undirected={V(k): [V(x) for x in vs] for k, vs in uadj.items()})
        return NxMixedGraph.from_str_adj(nodes=list(gd["nodes"]), directed=dadj, undirected=uadj)
    g = NxMixedGraph()
    for n in gd["nodes"]:
        g.add_node(V(n))
    for u, v in gd["di"]:
        g.add_directed_edge(V(u), V(v))
    for u, v in gd["bi"]:
        g.add_undirected_edge(V(u), V(v))
    return g


def to_rg(gd):
    """Reference graph over y0 Variables (independent of NxMixedGraph)."""
    from y0.dsl import Variable

    from ..refgraph import RG

    return RG.make(
        [node(n) for n in gd["nodes"]],
        [(node(u), node(v)) for u, v in gd["di"]],
        [(node(u), node(v)) for u, v in gd["bi"]],
    )


def key(gd):
    """Canonical text of the graph (independent of insertion order)."""
    return "N" + ",".join(sorted(gd["nodes"])) + "|D" + ",".join(sorted(f"{u}>{v}" for u, v in gd["di"])) + \
        "|B" + ",".join(sorted("~".join(sorted(e)) for e in gd["bi"]))


def all_mixed_graphs(n):
    """All mixed graphs on n labelled nodes: every ordered pair may carry a directed edge, every
    unordered pair a bidirected one (cyclic graphs included). 3 nodes -> 512 graphs."""
    nm = names(n)
    ordered = [(a, b) for a in nm for b in nm if a != b]
    unordered = list(itt.combinations(nm, 2))
    for dmask in range(1 << len(ordered)):
        di = [list(ordered[i]) for i in range(len(ordered)) if dmask >> i & 1]
        for bmask in range(1 << len(unordered)):
            bi = [list(unordered[i]) for i in range(len(unordered)) if bmask >> i & 1]
            yield {"nodes": nm[:], "di": di, "bi": bi, "hostile": "exhaustive"}


def all_dags(n):
    """All labelled DAG edge lists on n nodes."""
    nm = names(n)
    ordered = [(a, b) for a in nm for b in nm if a != b]
    for dmask in range(1 << len(ordered)):
        di = [ordered[i] for i in range(len(ordered)) if dmask >> i & 1]
        # reject 2-cycles fast, then general cycle test
        s = set(di)
        if any((b, a) in s for a, b in di):
            continue
        if _acyclic(nm, di):
            yield [list(e) for e in di]


def _acyclic(nm, di):
    indeg = {v: 0 for v in nm}
    ch = {v: [] for v in nm}
    for a, b in di:
        indeg[b] += 1
        ch[a].append(b)
    q = [v for v in nm if indeg[v] == 0]
    k = 0
    while q:
        x = q.pop()
        k += 1
        for c in ch[x]:
            indeg[c] -= 1
            if indeg[c] == 0:
                q.append(c)
    return k == len(nm)


def all_admgs(n):
    """All labelled ADMGs on n nodes (n=4: 543 DAGs x 64 bidirected sets = 34 752)."""
    nm = names(n)
    unordered = list(itt.combinations(nm, 2))
    for di in all_dags(n):
        for bmask in range(1 << len(unordered)):
            bi = [list(unordered[i]) for i in range(len(unordered)) if bmask >> i & 1]
            yield {"nodes": nm[:], "di": di, "bi": bi, "hostile": "exhaustive"}


def subsets(items, max_size=None):
    items = list(items)
    top = len(items) if max_size is None else min(max_size, len(items))
    for r in range(top + 1):
        yield from itt.combinations(items, r)


def mutate(gd, rng):
    """One small edit: add/remove a directed or bidirected edge (acyclicity kept), or add a node."""
    nodes = list(gd["nodes"])
    di = [list(e) for e in gd["di"]]
    bi = [list(e) for e in gd["bi"]]
    from ..refgraph import RG

    order = RG.make(nodes, [tuple(e) for e in di], []).topological_order()
    pos = {v: i for i, v in enumerate(order)}
    op = rng.choice(["add_di", "del_di", "add_bi", "del_bi", "add_di", "add_bi", "add_node"])
    if op == "add_di" and len(nodes) >= 2:
        a, b = rng.sample(nodes, 2)
        if pos[a] > pos[b]:
            a, b = b, a
        if [a, b] not in di:
            di.append([a, b])
    elif op == "del_di" and di:
        di.pop(rng.randrange(len(di)))
    elif op == "add_bi" and len(nodes) >= 2:
        a, b = rng.sample(nodes, 2)
        if [a, b] not in bi and [b, a] not in bi:
            bi.append([a, b])
    elif op == "del_bi" and bi:
        bi.pop(rng.randrange(len(bi)))
    elif op == "add_node" and len(nodes) < 6:
        new = next(f"V{i}" for i in range(20) if f"V{i}" not in nodes)
        nodes.append(new)
        other = rng.choice(nodes[:-1])
        if rng.random() < 0.5:
            di.append([other, new] if rng.random() < 0.5 else [new, other])
        else:
            bi.append([other, new])
        # a new sink/source can never create a cycle
    out = {"nodes": nodes, "di": di, "bi": bi, "hostile": "mutant"}
    if not _acyclic(nodes, di):
        return gd
    return out


def edit_inplace(g, gd, rng):
    """One in-place edit of the real NxMixedGraph object ``g`` through its public mutators (and the documented
    networkx components for removals), mirrored in the description ``gd`` (returned as a new dict).  Acyclicity kept.
    Used by the *edit histories*: call, edit the same object, call again — a stale cache or memo keyed by the object
    answers for the graph as it was."""
    from y0.dsl import Variable

    from ..refgraph import RG

    nodes = list(gd["nodes"])
    di = [list(e) for e in gd["di"]]
    bi = [list(e) for e in gd["bi"]]
    order = RG.make(nodes, [tuple(e) for e in di], []).topological_order()
    pos = {v: i for i, v in enumerate(order)}
    op = rng.choice(["add_di", "add_di", "add_bi", "add_bi", "del_di", "del_bi", "add_node", "new_by_bi", "new_by_di",
                     "rewire_bi", "rewire_bi", "rewire_di", "raw_add_di", "raw_add_di", "raw_add_bi"])
    if op in ("raw_add_di", "raw_add_bi") and len(nodes) >= 2:
        # an edge between existing nodes added through the networkx member directly (as removals are)
        a, b = rng.sample(nodes, 2)
        if op == "raw_add_di":
            if pos[a] > pos[b]:
                a, b = b, a
            if [a, b] not in di:
                g.directed.add_edge(Variable(a), Variable(b))
                di.append([a, b])
        elif [a, b] not in bi and [b, a] not in bi:
            g.undirected.add_edge(Variable(a), Variable(b))
            bi.append([a, b])
        return {"nodes": nodes, "di": di, "bi": bi, "hostile": "edited"}
    if op.startswith("raw_add"):
        op = "add_di"
    if op == "rewire_bi" and bi and len(nodes) >= 3:
        # move a bidirected edge: the node and edge counts stay what they were
        a, b = bi.pop(rng.randrange(len(bi)))
        g.undirected.remove_edge(Variable(a), Variable(b))
        for _ in range(8):
            c, d = rng.sample(nodes, 2)
            if [c, d] not in bi and [d, c] not in bi and {c, d} != {a, b}:
                g.add_undirected_edge(Variable(c), Variable(d))
                bi.append([c, d])
                break
        return {"nodes": nodes, "di": di, "bi": bi, "hostile": "edited"}
    if op == "rewire_di" and di and len(nodes) >= 3:
        a, b = di.pop(rng.randrange(len(di)))
        g.directed.remove_edge(Variable(a), Variable(b))
        for _ in range(8):
            c, d = rng.sample(nodes, 2)
            if pos[c] > pos[d]:
                c, d = d, c
            if [c, d] not in di and (c, d) != (a, b):
                g.add_directed_edge(Variable(c), Variable(d))
                di.append([c, d])
                break
        return {"nodes": nodes, "di": di, "bi": bi, "hostile": "edited"}
    if op.startswith("rewire"):
        op = "add_bi"
    if op in ("new_by_bi", "new_by_di") and (len(nodes) >= 8 or not nodes):
        op = "add_bi"
    if op in ("new_by_bi", "new_by_di"):
        # an edge mutator introduces a node the graph did not have (no add_node call)
        new = next(f"V{i}" for i in range(30) if f"V{i}" not in nodes)
        old = rng.choice(nodes)
        if op == "new_by_bi":
            pair = [old, new] if rng.random() < 0.5 else [new, old]
            g.add_undirected_edge(Variable(pair[0]), Variable(pair[1]))
            bi.append(pair)
        else:
            pair = [old, new] if rng.random() < 0.5 else [new, old]
            g.add_directed_edge(Variable(pair[0]), Variable(pair[1]))
            di.append(pair)
        nodes.append(new)
        return {"nodes": nodes, "di": di, "bi": bi, "hostile": "edited"}
    if op == "add_di" and len(nodes) >= 2:
        a, b = rng.sample(nodes, 2)
        if pos[a] > pos[b]:
            a, b = b, a
        if [a, b] not in di:
            g.add_directed_edge(Variable(a), Variable(b))
            di.append([a, b])
    elif op == "add_bi" and len(nodes) >= 2:
        a, b = rng.sample(nodes, 2)
        if [a, b] not in bi and [b, a] not in bi:
            g.add_undirected_edge(Variable(a), Variable(b))
            bi.append([a, b])
    elif op == "del_di" and di:
        a, b = di.pop(rng.randrange(len(di)))
        g.directed.remove_edge(Variable(a), Variable(b))
    elif op == "del_bi" and bi:
        a, b = bi.pop(rng.randrange(len(bi)))
        g.undirected.remove_edge(Variable(a), Variable(b))
    elif op == "add_node" and len(nodes) < 8:
        new = next(f"V{i}" for i in range(30) if f"V{i}" not in nodes)
        g.add_node(Variable(new))
        nodes.append(new)
    return {"nodes": nodes, "di": di, "bi": bi, "hostile": "edited"}
