"""Monitors on the real ID / IDC entry points (C01, C02, C03, C06-ID part).

Installed on identify_outcomes, identify and idc.  Only the outermost activation of a
top-level call is judged semantically (inner activations work on a derived distribution);
every activation is counted for the bounded-progress monitor.
"""

from __future__ import annotations

import hashlib
import itertools as itt
import os
import random
from fractions import Fraction

from . import kernel
from .denote import Denoter, Undefined, Unbound, free_variables, leaves
from .refgraph import RG
from .refid import conditional_identifiable, identifiable
from .scm import ModelTooLarge, random_model
from .snap import freeze_graph, freeze_query, freeze_value

CONFIG = {"semantic": True, "K": 2, "max_card": 3, "max_nodes_semantic": 6, "decide": {"C01", "C02", "C03", "C06"}}

_stack: list[str] = []
_activations = {"identify": 0, "depth": 0, "maxdepth": 0}


def _seed():
    return int(os.environ.get("VERIF_SEED", "0"))


def rg_names(ref: RG):
    """(order, parents, bidirected) over *names* from an RG over Variables."""
    names = RG.make([v.name for v in ref.V], [(u.name, v.name) for u, v in ref.D],
                    [tuple(x.name for x in e) for e in ref.B if len(e) == 2])
    order = names.topological_order()
    pm = names.parents_map()
    return order, {v: sorted(pm[v]) for v in order}, sorted(tuple(sorted(e)) for e in names.B)


def gd_of(ref: RG):
    return {"nodes": sorted(v.name for v in ref.V), "di": sorted([u.name, v.name] for u, v in ref.D),
            "bi": sorted(sorted(x.name for x in e) for e in ref.B)}


def models_for(ref: RG, tag: str, K: int, max_card: int):
    order, parents, bi = rg_names(ref)
    out = []
    hint = cards_hint()
    for k in range(K):
        h = hashlib.sha1(f"{_seed()}:{tag}:{k}".encode()).hexdigest()
        rng = random.Random(h)
        card = {v: hint.get(v) or rng.randint(2, 2 + (k % 2)) for v in order} if hint else None
        try:
            m = random_model(rng, order, parents, bi, max_card=max_card, clique_latents=(k % 2 == 1), card=card)
        except ModelTooLarge:
            kernel.count("model-too-large")
            continue
        out.append((h, m))
    return out


def cards_hint() -> dict:
    """Wide graphs: the driver may declare some nodes one-valued (constants), so that exact models stay small while the
    algorithm still works on the whole graph.  {name: 1}; empty when the driver said nothing."""
    c = kernel.LOG.case
    h = c.get("cards") if isinstance(c, dict) else None
    return dict(h) if isinstance(h, dict) else {}


def semantic_feasible(ref: RG) -> bool:
    live = len(ref.V) - sum(1 for v in ref.V if cards_hint().get(v.name) == 1)
    return live <= CONFIG["max_nodes_semantic"] and len(ref.V) <= 200


# ---------------------------------------------------------------------------------------
# vocabulary (C06, ID/IDC clause)


def vocabulary_id(expr, node_names: set[str]) -> list[str]:
    from y0.dsl import (CounterfactualVariable, Intervention, PopulationProbability, Probability, Product,
                        QFactor, Sum, Variable, One, Zero)
    from y0.dsl import Fraction as YF

    bad = []

    def walk(e):
        if isinstance(e, Probability):
            if isinstance(e, PopulationProbability):
                bad.append(f"population-tagged term {e}")
            for v in itt.chain(e.children, e.parents):
                if type(v) is not Variable:
                    bad.append(f"{type(v).__name__} {v} in {e}")
                elif v.star is not None:
                    bad.append(f"valued variable {v} in {e}")
                elif v.name not in node_names:
                    bad.append(f"non-graph name {v.name} in {e}")
        elif isinstance(e, Product):
            for x in e.expressions:
                walk(x)
        elif isinstance(e, Sum):
            for r in e.ranges:
                if type(r) is not Variable or r.star is not None or r.name not in node_names:
                    bad.append(f"sum range {r!r} not a plain graph node")
            walk(e.expression)
        elif isinstance(e, YF):
            walk(e.numerator)
            walk(e.denominator)
        elif isinstance(e, (One, Zero)):
            pass
        elif isinstance(e, QFactor):
            bad.append(f"Q-factor {e} in an ID estimand")
        else:
            bad.append(f"unknown node {type(e).__name__}")

    walk(expr)
    return bad


# ---------------------------------------------------------------------------------------
# semantic check


def check_effect(prop, expr, ref: RG, X, Y, Z, tag, case):
    """Compare ⟦expr⟧ with P(Y,Z|do X)/P(Z|do X) on K random positive models, all assignments."""
    names = {v.name for v in ref.V}
    Xn, Yn, Zn = sorted(v.name for v in X), sorted(v.name for v in Y), sorted(v.name for v in Z)
    fv = free_variables(expr)
    outside = fv - names
    if outside:
        kernel.violation(prop, "free-variable-outside-graph", f"estimand {expr} mentions {sorted(outside)} not in the graph",
                         case=case, mech=None)
        return
    others = sorted(fv - set(Xn) - set(Yn) - set(Zn))
    sweep = Xn + Yn + Zn + others
    for h, m in models_for(ref, tag, CONFIG["K"], CONFIG["max_card"]):
        kernel.count(f"{prop}:models-evaluated")
        den = Denoter(m, ref={n: 0 for n in names}, alt={n: 1 for n in names})
        n_assign = 0
        for vals in itt.product(*[m.values(n) for n in sweep]):
            env = dict(zip(sweep, vals))
            do = {x: env[x] for x in Xn}
            den.do_env = do
            try:
                got = den.value(expr, env)
            except Undefined:
                kernel.count(f"{prop}:undefined-denotation")
                continue
            except Unbound as u:
                kernel.violation(prop, "unbound-variable", f"estimand {expr} has unvalued variable {u.name}", case=case)
                return
            except KeyError as k:
                # a name the model does not have (bound by a sum, so not among the free variables above)
                kernel.violation(prop, "variable-outside-graph", f"estimand {expr} ranges over {k} which is not a node of "
                                 f"the graph {gd_of(ref)}", case=case)
                return
            num = m.p({**{y: env[y] for y in Yn}, **{z: env[z] for z in Zn}}, do)
            if Zn:
                dz = m.p({z: env[z] for z in Zn}, do)
                want = num / dz
            else:
                want = num
            n_assign += 1
            if got != want:
                kernel.violation(
                    prop, "estimand-value",
                    f"estimand {expr} for P({Yn} | do({Xn}){', ' + str(Zn) if Zn else ''}) evaluates to {got} but the "
                    f"model gives {want} at {env} (model seed {h[:12]}, cards {m.card}); graph {gd_of(ref)}",
                    witness={"estimand": str(expr), "assignment": env, "got": str(got), "want": str(want),
                             "model_seed": h, "cards": m.card, "tags": kernel.tags()},
                    mech=classify_id(), case=case)
                return
        kernel.count(f"{prop}:assignments-compared", n_assign)


def _is_observational(est) -> bool:
    """The working distribution is still the observational joint or a plain marginal of it."""
    from y0.dsl import Probability, Sum

    if isinstance(est, Sum):
        est = est.expression
    return isinstance(est, Probability) and not est.parents


def classify_id():
    """Mechanism key from the trace: line 6 / line 7 reached while the working distribution is no
    longer the observational one (its conditionals are still read off the observational P)."""
    for tag, facts in kernel.LOG.trace:
        if tag in ("id.line6", "id.line7") and "estimand" in facts and not _is_observational(facts["estimand"]):
            return "id.conditional-from-observational-after-line7"
    return None


# ---------------------------------------------------------------------------------------
# entry-point monitors


def _enter(label):
    _stack.append(label)
    if len(_stack) == 1:
        _activations.update(identify=0, depth=0, maxdepth=0)


def _leave():
    _stack.pop()


def _judge_common(label, snap, graph, X, Y, Z, res, raised):
    """C02/C03 totality+purity+completeness, C06 vocabulary, C01/C03 semantics for one top-level call."""
    from y0.algorithm.identify.utils import Unidentifiable
    from y0.dsl import Expression

    ref = snap["ref"]
    case = {"graph": gd_of(ref), "X": sorted(v.name for v in X), "Y": sorted(v.name for v in Y),
            "Z": sorted(v.name for v in Z), "entry": label}
    if isinstance(kernel.LOG.case, dict) and kernel.LOG.case.get("history"):
        case["history"] = kernel.LOG.case["history"]
        case["caller-reuses-its-sets"] = True
    conditional = bool(Z)
    ptot = "C03" if conditional else "C02"
    valid = (ref.is_acyclic() and X.isdisjoint(Y) and X.isdisjoint(Z) and Y.isdisjoint(Z) and bool(Y)
             and (X | Y | Z) <= set(ref.V) and (conditional or bool(X)))
    if not valid:
        kernel.count("id:invalid-query-skipped")
        return
    # purity
    if freeze_graph(graph) != snap["fz"]:
        kernel.violation("C02", "graph-unchanged", f"{label} modified the caller's graph", case=case)
    if snap.get("args") is not None and snap["args"] != snap["args_after"]():
        kernel.violation("C02", "query-unchanged", f"{label} modified the caller's query objects", case=case)
    # totality
    if raised is not None:
        unid = isinstance(raised, Unidentifiable)
        if label == "identify_outcomes" or not unid:
            kernel.violation(ptot, "total", f"{label} raised {type(raised).__name__}: {raised} on a valid query; "
                             f"graph {case['graph']} X={case['X']} Y={case['Y']} Z={case['Z']}", case=case)
            return
        verdict = False
    else:
        if label == "identify_outcomes":
            if res is not None and not isinstance(res, Expression):
                kernel.violation(ptot, "total", f"identify_outcomes returned {type(res).__name__}", case=case)
                return
            verdict = res is not None
        else:
            if not isinstance(res, Expression):
                kernel.violation(ptot, "total", f"{label} returned {type(res).__name__}", case=case)
                return
            verdict = True
    # bounded progress
    nV = len(ref.V)
    if _activations["identify"] > 2 ** (nV + 3) + 8 * (len(Z) + 1):
        kernel.violation("C02", "bounded-progress", f"{_activations['identify']} activations of identify for |V|={nV}", case=case)
    kernel.LOG.counters["id:max-activations"] = max(kernel.LOG.counters["id:max-activations"], _activations["identify"])
    # completeness
    want = conditional_identifiable(ref, X, Y, Z) if conditional else identifiable(ref, X, Y)
    kernel.count(f"{ptot}:verdict-identifiable" if verdict else f"{ptot}:verdict-refused")
    if verdict != want:
        # IDC's completeness is not claimed by C03 (only soundness + totality); C02 claims it for ID
        if not conditional:
            kernel.violation("C02", "complete", f"{label} says {'identifiable' if verdict else 'unidentifiable'} but the "
                             f"Tian–Pearl reference says {'identifiable' if want else 'not identifiable'}; graph "
                             f"{case['graph']} X={case['X']} Y={case['Y']}", case=case)
        else:
            kernel.count("C03:verdict-differs-from-reference")
    if not verdict:
        return
    # vocabulary
    bad = vocabulary_id(res, {v.name for v in ref.V})
    kernel.count("C06:id-estimands-walked")
    if bad:
        kernel.violation("C06", "vocabulary-id", f"{label} estimand {res} contains: {bad[:4]}", case=case)
    # semantics
    if CONFIG["semantic"] and semantic_feasible(ref):
        if cards_hint():
            case["cards"] = cards_hint()
            kernel.count("id:wide-graph-estimands-evaluated")
        prop = "C03" if conditional else "C01"
        tag = f"{sorted(map(str, ref.D))}|{sorted(sorted(map(str, e)) for e in ref.B)}|{case['X']}|{case['Y']}|{case['Z']}"
        check_effect(prop, res, ref, X, Y, Z, tag, case)


def _pre_outcomes(graph, treatments, outcomes, conditions=None):
    _enter("identify_outcomes")
    args = (treatments, outcomes, conditions)
    return {"fz": freeze_graph(graph), "ref": RG.from_nx(graph), "args": freeze_value(args),
            "args_after": lambda: freeze_value(args)}


def _sets(treatments, outcomes, conditions):
    """The query the caller asked: read from the arguments; a one-shot iterable has been consumed by the call, so the
    driver's declared intent (LOG.case['intended']) stands in for it - and without one the call is not judged."""
    from y0.dsl import Variable

    c_ = kernel.LOG.case if isinstance(kernel.LOG.case, dict) else {}
    if c_.get("caller-reuses-its-sets") and c_.get("intended"):
        # the caller built its sets once and hands the same objects to several calls: what it ASKED is what it put in
        # them, not what a previous call may have left there
        it = c_["intended"]
        kernel.count("id:judged-against-the-callers-intent")
        return ({Variable(x) for x in it["X"]}, {Variable(y) for y in it["Y"]}, {Variable(z) for z in it["Z"]})
    oneshot = any(x is not None and not isinstance(x, (Variable, set, frozenset, list, tuple))
                  for x in (treatments, outcomes, conditions))
    if oneshot:
        it = (kernel.LOG.case or {}).get("intended")
        if not it:
            kernel.count("id:one-shot-arguments-not-judged")
            return None
        return ({Variable(x) for x in it["X"]}, {Variable(y) for y in it["Y"]}, {Variable(z) for z in it["Z"]})

    def s(x):
        if x is None:
            return set()
        return {x} if isinstance(x, Variable) else set(x)

    return s(treatments), s(outcomes), s(conditions)


def _post_outcomes(snap, res, graph, treatments, outcomes, conditions=None):
    try:
        if snap is not None and len(_stack) == 1:
            xyz = _sets(treatments, outcomes, conditions)
            if xyz is not None:
                _judge_common("identify_outcomes", snap, graph, *xyz, res, None)
    finally:
        _leave()


def _raise_outcomes(snap, exc, graph, treatments, outcomes, conditions=None):
    try:
        if snap is not None and len(_stack) == 1:
            xyz = _sets(treatments, outcomes, conditions)
            if xyz is not None and not (isinstance(exc, TypeError) and "intended" in (kernel.LOG.case or {})
                                        and str((kernel.LOG.case or {}).get("via", "")).endswith("-iter")):
                _judge_common("identify_outcomes", snap, graph, *xyz, None, exc)
    finally:
        _leave()


def _pre_ident(identification):
    top = not _stack
    _enter("identify")
    _activations["identify"] += 1
    if not top:
        return None
    q = identification.query
    return {"fz": freeze_graph(identification.graph), "ref": RG.from_nx(identification.graph),
            "args": freeze_query(q), "args_after": lambda: freeze_query(q),
            "default_estimand": _is_default(identification)}


def _is_default(identification):
    from y0.dsl import P

    try:
        return identification.estimand == P(identification.graph.nodes())
    except Exception:  # noqa: BLE001
        return False


def _post_ident(snap, res, identification):
    try:
        if snap is not None and snap["default_estimand"] and not identification.conditions:
            _judge_common("identify", snap, identification.graph, set(identification.treatments),
                          set(identification.outcomes), set(), res, None)
    finally:
        _leave()


def _raise_ident(snap, exc, identification):
    try:
        if snap is not None and snap["default_estimand"] and not identification.conditions:
            _judge_common("identify", snap, identification.graph, set(identification.treatments),
                          set(identification.outcomes), set(), None, exc)
    finally:
        _leave()


def _pre_idc(identification):
    top = not _stack
    _enter("idc")
    if not top:
        return None
    q = identification.query
    return {"fz": freeze_graph(identification.graph), "ref": RG.from_nx(identification.graph),
            "args": freeze_query(q), "args_after": lambda: freeze_query(q),
            "default_estimand": _is_default(identification),
            "X": set(identification.treatments), "Y": set(identification.outcomes), "Z": set(identification.conditions)}


def _post_idc(snap, res, identification):
    try:
        if snap is not None and snap["default_estimand"] and snap["Z"]:
            _judge_common("idc", snap, identification.graph, snap["X"], snap["Y"], snap["Z"], res, None)
    finally:
        _leave()


def _raise_idc(snap, exc, identification):
    try:
        if snap is not None and snap["default_estimand"] and snap["Z"]:
            _judge_common("idc", snap, identification.graph, snap["X"], snap["Y"], snap["Z"], None, exc)
    finally:
        _leave()


def install(semantic=True, K=2, max_card=3):
    import y0.algorithm.identify.api as api
    import y0.algorithm.identify.id_c as id_c
    import y0.algorithm.identify.id_std as id_std

    CONFIG.update(semantic=semantic, K=K, max_card=max_card)
    kernel.install_function(api, "identify_outcomes", label="identify_outcomes", pre=_pre_outcomes,
                            post=_post_outcomes, on_raise=_raise_outcomes)
    kernel.install_function(id_std, "identify", label="identify", pre=_pre_ident, post=_post_ident,
                            on_raise=_raise_ident)
    kernel.install_function(id_c, "idc", label="idc", pre=_pre_idc, post=_post_idc, on_raise=_raise_idc)
