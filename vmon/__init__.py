"""vmon — runtime monitors and reference-model oracles for y0 (see /verif/DESIGN.md)."""

import os
import sys
import warnings

VERIF_DIR = os.path.dirname(os.path.dirname(os.path.abspath(__file__)))
REPO = os.environ.get("VERIF_REPO", "/repo")

_deps = os.path.join(VERIF_DIR, ".deps")
if _deps not in sys.path:
    sys.path.insert(1, _deps)
_src = os.path.join(REPO, "src")
if _src not in sys.path:
    sys.path.insert(0, _src)

warnings.filterwarnings("ignore")
