"""Monitors for the counterfactual-transport building blocks (C19) and procedures (C09):
minimize_counterfactual, simplify, get_ancestors_of_counterfactual, get_ancestral_components,
do_counterfactual_factor_factorization, ctfTRu / ctfTR.

References are the published definitions (Correa, Lee, Bareinboim 2022) evaluated with O3's set
algebra, and O1's multi-world / multi-domain exact evaluation.
"""

from __future__ import annotations

import itertools as itt
import random
from fractions import Fraction

import numpy as np

from . import kernel, mon_id
from .denote import TARGET, Denoter, Unbound, Undefined, free_variables
from .gen import events as gev
from .mon_cf import event_prob, gd_of, models_with_values, readings, valid_event
from .refgraph import RG

CONFIG = {"K": 2}
FACTS: dict = {}


# ---------------------------------------------------------------------------------------
# reference definitions on names


def _names_rg(ref: RG) -> RG:
    return RG.make([v.name for v in ref.V], [(u.name, v.name) for u, v in ref.D],
                   [tuple(x.name for x in e) for e in ref.B if len(e) == 2])


def cfvar_json(v):
    """[name, [[iname, istar]...]] of a (counterfactual) variable."""
    return [v.name, sorted([i.name, bool(i.star)] for i in getattr(v, "interventions", ()) or ())]


def ref_minimal_subscripts(g: RG, name, world):
    """x ∩ An(Y) in G with the edges into X removed (inclusive ancestors)."""
    X = {i for i, _ in world}
    an = g.remove_in_edges(X).ancestors_inclusive({name})
    return sorted([i, bool(s)] for i, s in world if i in an)


def ref_ancestors(g: RG, name, world):
    """Definition 2.1: An(Y_x) = { W_z : W in An(Y) in G with edges OUT of X removed, z = x ∩ An(W) in G with the edges
    INTO X removed }  ->  set of (name, tuple(sorted subscripts))."""
    X = {i for i, _ in world}
    ws = g.remove_out_edges(X).ancestors_inclusive({name})
    gin = g.remove_in_edges(X)
    out = set()
    for w in ws:
        an = gin.ancestors_inclusive({w})
        out.add((w, tuple(sorted((i, bool(s)) for i, s in world if i in an))))
    return out


def ref_ancestral_components(g: RG, conditioned, roots):
    """Definition 4.2 (as y0 documents it): per root W_t the ancestral set An(W_t) taken in G with the edges out of the
    conditioned variables that lie in An(W_t) removed; two sets are put together iff they share a (base) vertex or a
    bidirected edge of G joins a vertex of one with a vertex of the other (transitively).
    conditioned / roots: lists of [name, world].  -> frozenset of frozensets of (name, subscripts)."""
    cond_min = {(n, tuple(map(tuple, ref_minimal_subscripts(g, n, w)))) for n, w in conditioned}
    sets = []
    for n, w in roots:
        anc = ref_ancestors(g, n, w)
        xs = {c[0] for c in cond_min if c in anc}
        g2 = g.remove_out_edges(xs)
        sets.append(frozenset(ref_ancestors(g2, n, w)))
    sets = list(dict.fromkeys(sets))
    parent = list(range(len(sets)))

    def find(i):
        while parent[i] != i:
            parent[i] = parent[parent[i]]
            i = parent[i]
        return i

    bases = [{x[0] for x in s} for s in sets]
    for i, j in itt.combinations(range(len(sets)), 2):
        linked = bool(bases[i] & bases[j]) or any((a in bases[i] and b in bases[j]) or (a in bases[j] and b in bases[i])
                                                  for a, b in (tuple(e) for e in g.B if len(e) == 2))
        if linked:
            parent[find(i)] = find(j)
    groups: dict = {}
    for i, s in enumerate(sets):
        groups.setdefault(find(i), set()).update(s)
    return frozenset(frozenset(v) for v in groups.values())


def _cfset(vars_):
    return {(v.name, tuple(sorted((i.name, bool(i.star)) for i in getattr(v, "interventions", ()) or ()))) for v in vars_}


def _in_graph(ref: RG, var) -> bool:
    names = {v.name for v in ref.V}
    return var.name in names and all(i.name in names for i in getattr(var, "interventions", ()) or ())


# ---------------------------------------------------------------------------------------
# (a) minimize_counterfactual


def _pre_graph(*a, **k):
    return None


def _judge_minimize(variable, graph, res, exc):
    from y0.dsl import CounterfactualVariable, Variable

    ref = RG.from_nx(graph)
    if not isinstance(variable, Variable) or not _in_graph(ref, variable) or not ref.is_acyclic():
        kernel.count("C19:minimize:invalid-input-skipped")
        return
    g = _names_rg(ref)
    name, world = cfvar_json(variable)
    case = {"graph": gd_of(ref), "variable": [name, world, variable.star], "op": "minimize"}
    if mon_id.cards_hint():
        case["cards"] = mon_id.cards_hint()
    want = ref_minimal_subscripts(g, name, world)
    mech = None
    if exc is not None:
        kernel.violation("C19", "minimize-well-formed", f"minimize_counterfactual({variable}) raised {type(exc).__name__}: {exc}; "
                         f"the minimal subscript set is {want}; graph {case['graph']}", case=case, mech=mech)
        return
    kernel.count("C19:minimize:checked")
    ok_form = (isinstance(res, Variable) and res.name == variable.name and res.star == variable.star
               and (not isinstance(res, CounterfactualVariable) or len(res.interventions) >= 1))
    if not ok_form:
        kernel.violation("C19", "minimize-well-formed", f"minimize_counterfactual({variable}) = {res!r} is not a well-formed "
                         f"variable with the same name and value", case=case, mech=mech)
        return
    got = cfvar_json(res)[1]
    if got != want:
        kernel.violation("C19", "minimize-subscripts", f"minimize_counterfactual({variable}) = {res}: subscripts {got}, the "
                         f"definition x ∩ An(Y) in G with edges into X removed gives {want}; graph {case['graph']}", case=case)
    if got != world:
        kernel.count("C19:minimize:subscripts-dropped")
    # same random variable in every model
    for h, m, rv, av in models_with_values(ref, f"min|{sorted(map(str, ref.D))}|{sorted(sorted(map(str, e)) for e in ref.B)}",
                                           CONFIG["K"]):
        do0 = {i: (av[i] if s else rv[i]) for i, s in world}
        do1 = {i: (av[i] if s else rv[i]) for i, s in got}
        a = np.broadcast_to(m.world(do0)[name], m.sizes)
        b = np.broadcast_to(m.world(do1)[name], m.sizes)
        kernel.count("C19:minimize:models-compared")
        if not np.array_equal(a, b):
            kernel.violation("C19", "minimize-same-variable", f"{variable} and its minimisation {res} differ as random variables "
                             f"(on {int((a != b).sum())} of {a.size} noise configurations; model seed {h[:12]}); graph "
                             f"{case['graph']}", case=case)
            return


def _post_minimize(snap, res, variable, graph):
    _judge_minimize(variable, graph, res, None)


def _raise_minimize(snap, exc, variable, graph):
    _judge_minimize(variable, graph, None, exc)


# ---------------------------------------------------------------------------------------
# (c) ancestors of a counterfactual variable


def _post_ancestors(snap, res, event, graph):
    from y0.dsl import Variable

    ref = RG.from_nx(graph)
    if not isinstance(event, Variable) or not _in_graph(ref, event) or not ref.is_acyclic():
        kernel.count("C19:ancestors:invalid-input-skipped")
        return
    name, world = cfvar_json(event)
    want = ref_ancestors(_names_rg(ref), name, world)
    got = _cfset(res)
    kernel.count("C19:ancestors:checked")
    if got != want or any(v.star is not None for v in res):
        kernel.violation("C19", "ancestors-of-counterfactual",
                         f"get_ancestors_of_counterfactual({event}) = {sorted(map(str, res))}, Definition 2.1 gives "
                         f"{sorted(want)}; graph {gd_of(ref)}", case={"graph": gd_of(ref), "variable": [name, world, None],
                                                                       "op": "ancestors"})


# ---------------------------------------------------------------------------------------
# (d) ancestral components


def _post_components(snap, res, *, conditioned_variables, root_variables, graph):
    ref = RG.from_nx(graph)
    allv = list(conditioned_variables) + list(root_variables)
    if not all(_in_graph(ref, v) for v in allv) or not ref.is_acyclic() or not root_variables:
        kernel.count("C19:components:invalid-input-skipped")
        return
    g = _names_rg(ref)
    cond = [cfvar_json(v) for v in conditioned_variables]
    roots = [cfvar_json(v) for v in root_variables]
    want = ref_ancestral_components(g, cond, roots)
    got = frozenset(frozenset(_cfset(s)) for s in res)
    kernel.count("C19:components:checked")
    if len(want) < len(roots):
        kernel.count("C19:components:merged-sets")
    case = {"graph": gd_of(ref), "conditioned": cond, "roots": roots, "op": "components"}
    if mon_id.cards_hint():
        case["cards"] = mon_id.cards_hint()
    if got != want:
        mech = None
        kernel.violation("C19", "ancestral-components",
                         f"get_ancestral_components(conditioned={cond}, roots={roots}) = "
                         f"{sorted(sorted(map(str, s)) for s in got)}, Definition 4.2 gives "
                         f"{sorted(sorted(map(str, s)) for s in want)}; graph {case['graph']}", case=case, mech=mech)


def _only_coarser(got, want) -> bool:
    """got is a coarsening of want (same elements, some blocks merged)."""
    if set().union(*got) != set().union(*want) if got and want else True:
        return False
    return all(any(w <= g_ for g_ in got) for w in want)


# ---------------------------------------------------------------------------------------
# generic judgement of (expression, event) against a (family of) model(s)


MODES = {"bound-env-literal": (True, False, True, False), "bound-literal": (True, True, False, False),
         "literal": (False, True, False, False), "env-literal": (False, False, True, False),
         # y0 writes the parents it adds to a ctf-factor as '-' subscripts (meaning: the context value of that
         # variable) and keeps the query's own '+' subscripts: '+' literal, '-' contextual
         "plus-literal-minus-contextual": (True, False, True, True)}


def judge_expression(prop, label, expr, ref: RG, value_ev, truth_fn, family_fn, tag, case, mech_fn, modes, K=None):
    """Existential over readings (value of doubly valued names x subscript mode), universal over models and over
    unvalued free variables.  truth_fn(target_model, rv, av) -> Fraction or None (skip model);
    family_fn(h, m) -> dict population -> Model."""
    from y0.dsl import Zero

    names = {v.name for v in ref.V}
    mv = models_with_values(ref, tag, K or CONFIG["K"])
    if not mv:
        return
    fams = [(h, m, rv, av, family_fn(h, m)) for h, m, rv, av in mv]
    if isinstance(expr, Zero):
        kernel.count(f"{prop}:zero-answers")
        for h, m, rv, av, fam in fams:
            t = truth_fn(m, rv, av, zero_check=True)
            if t is not None and t > 0:
                kernel.violation(prop, "zero-only-if-impossible", f"{label} returned Zero although the event has probability {t} "
                                 f"in a compatible model (seed {h[:12]}, ref {rv}, alt {av}); {case}", case=case,
                                 mech=mech_fn("zero"))
                return
        return
    try:
        fv = free_variables(expr)
    except TypeError as e:
        kernel.violation(prop, "estimand-type", f"{label} returned an expression with an uninterpretable node: {e}", case=case,
                         mech=mech_fn("value"))
        return
    if fv - names:
        kernel.violation(prop, "free-variable-outside-graph", f"{label}: {expr} mentions {sorted(fv - names)}", case=case,
                         mech=mech_fn("value"))
        return
    rds, amb = readings(value_ev)
    failures = []
    npts = 0
    needs_env = getattr(truth_fn, "needs_env", False)
    if needs_env:
        fv = fv | set(truth_fn.env_names)
    for r, mode in [(r, md) for r in rds for md in modes]:
        sum_binds, literal, use_env, plus_lit = MODES[mode]
        universal = sorted(fv - set(r))
        bad = None
        for h, m, rv, av, fam in fams:
            want = None if needs_env else truth_fn(m, rv, av)
            if want is None and not needs_env:
                continue
            den = Denoter(fam, ref=rv, alt=av, literal_subscripts=literal, sum_binds_subscripts=sum_binds,
                          plus_literal=plus_lit)
            base_env = {n: (av[n] if s else rv[n]) for n, s in r.items()}
            for vals in itt.product(*[m.values(n) for n in universal]):
                env = dict(base_env)
                env.update(zip(universal, vals))
                den.do_env = env if use_env else {}
                if needs_env:
                    want = truth_fn(m, rv, av, env=env)
                    if want is None:
                        continue
                try:
                    got = den.value(expr, env)
                except Undefined:
                    kernel.count(f"{prop}:undefined-denotation")
                    continue
                except Unbound as u:
                    bad = {"why": f"unvalued variable {u.name}"}
                    break
                except KeyError as e:
                    bad = {"why": f"expression mentions something the model family lacks: {e}"}
                    break
                npts += 1
                if got != want:
                    bad = {"assignment": env, "got": str(got), "want": str(want), "model_seed": h, "cards": m.card,
                           "ref": rv, "alt": av, "mode": mode, "depends_on_unvalued": universal}
                    break
            if bad:
                break
        if bad is None:
            kernel.count(f"{prop}:expressions-correct")
            kernel.count(f"{prop}:points-compared", npts)
            return
        failures.append(bad)
    kernel.count(f"{prop}:points-compared", npts)
    kernel.violation(prop, "expression-value", f"{label}: {expr} is wrong under every reading: {failures[0]}; {case}",
                     case=case, witness=failures[0], mech=mech_fn("value"))


# ---------------------------------------------------------------------------------------
# (b) simplify


def pairs_json(event):
    return gev.from_event(event)


def _valued(ev):
    return [c for c in ev if c[2] is not None]


def _judge_simplify(event, graph, res, exc):
    ref = RG.from_nx(graph)
    try:
        ev = pairs_json(event)
    except Exception:  # noqa: BLE001
        kernel.count("C19:simplify:invalid-input-skipped")
        return
    if not valid_event(ref, ev) or not ev:
        kernel.count("C19:simplify:invalid-input-skipped")
        return
    case = {"graph": gd_of(ref), "event": ev, "op": "simplify"}
    if mon_id.cards_hint():
        case["cards"] = mon_id.cards_hint()
    g = _names_rg(ref)
    reflexive = any(c[0] in {i for i, _ in c[1]} for c in ev)
    empty_min = any(c[1] and not ref_minimal_subscripts(g, c[0], c[1]) for c in ev)

    def mech(kind):
        if reflexive:
            return "simplify.reflexive-variable-becomes-observation"
        return None

    if exc is not None and isinstance(exc, TypeError) and ("Check your inputs" in str(exc) or "Improperly formatted" in str(exc)):
        kernel.count("C19:simplify:rejected-by-its-own-input-validation")  # e.g. a self-intervened variable without a value
        return
    if exc is not None:
        kernel.violation("C19", "simplify-total", f"simplify({gev.key(_valued(ev))}) raised {type(exc).__name__}: {exc}; graph "
                         f"{case['graph']}", case=case, mech=mech("raise"))
        return
    tag = f"simp|{sorted(map(str, ref.D))}|{sorted(sorted(map(str, e)) for e in ref.B)}"
    mv = models_with_values(ref, tag, CONFIG["K"])
    kernel.count("C19:simplify:checked")
    if res is None:
        kernel.count("C19:simplify:impossible-verdicts")
        for h, m, rv, av in mv:
            p = event_prob(m, _valued(ev), rv, av)
            if p > 0:
                kernel.violation("C19", "simplify-impossible-only-if-zero", f"simplify declares {gev.key(_valued(ev))} impossible "
                                 f"but it has probability {p} in a compatible model (seed {h[:12]}, ref {rv}, alt {av}); graph "
                                 f"{case['graph']}", case=case, mech=mech("zero"))
                return
        return
    try:
        out = pairs_json(res)
    except Exception as e:  # noqa: BLE001
        kernel.violation("C19", "simplify-well-formed", f"simplify returned a malformed event {res!r}: {e}", case=case)
        return
    if not valid_event(ref, out):
        kernel.violation("C19", "simplify-well-formed", f"simplify returned {out}, which mentions variables outside the graph",
                         case=case)
        return
    if len(out) < len(ev):
        kernel.count("C19:simplify:conjuncts-removed")
    for h, m, rv, av in mv:
        p0, p1 = event_prob(m, _valued(ev), rv, av), event_prob(m, _valued(out), rv, av)
        kernel.count("C19:simplify:probabilities-compared")
        if p0 != p1:
            kernel.violation("C19", "simplify-probability", f"simplify turns {gev.key(_valued(ev))} (probability {p0}) into "
                             f"{gev.key(_valued(out))} (probability {p1}) (model seed {h[:12]}, ref {rv}, alt {av}); graph "
                             f"{case['graph']}", case=case, mech=mech("value"))
            return


def _post_simplify(snap, res, *, event, graph):
    _judge_simplify(event, graph, res, None)


def _raise_simplify(snap, exc, *, event, graph):
    _judge_simplify(event, graph, None, exc)


# ---------------------------------------------------------------------------------------
# (e) counterfactual-factor factorisation


def _judge_factorization(variables, graph, res, exc):
    ref = RG.from_nx(graph)
    try:
        ev = pairs_json(variables)
    except Exception:  # noqa: BLE001
        return
    if not ev or not valid_event(ref, ev) or any(c[2] is None for c in ev):
        kernel.count("C19:factorization:invalid-input-skipped")
        return
    case = {"graph": gd_of(ref), "event": ev, "op": "factorization"}
    if mon_id.cards_hint():
        case["cards"] = mon_id.cards_hint()
    g = _names_rg(ref)
    empty_min = any(c[1] and not ref_minimal_subscripts(g, c[0], c[1]) for c in ev)
    reflexive = any(c[0] in {i for i, _ in c[1]} for c in ev)
    # the same base variable in two different worlds among the event's variables OR among their ancestors
    # (Definition 2.1): the returned expression is over names only, so the two collapse / one subscript name stands
    # for a fixed value in one factor and for a summation index in another
    anc_union = set()
    for c in ev:
        anc_union |= ref_ancestors(g, c[0], c[1])
    same_base = len({c[0] for c in ev}) < len(ev) or len({a[0] for a in anc_union}) < len(anc_union)

    # a variable observed at one value and set to the other value in another conjunct's world: the expression is over
    # names only, so it cannot say which of the two values a subscript / argument of that name means
    observed = {c[0]: c[2] for c in ev if c[0] not in {i for i, _ in c[1]}}
    two_values = any(i in observed and bool(observed[i]) != bool(s) for c in ev for i, s in c[1])

    # a name that is summed over (an ancestor outside the query) and is also a literal subscript of the query
    summed = {a[0] for a in anc_union} - {c[0] for c in ev}
    # (a '+' subscript stays distinguishable: y0 writes summation indices and added parents as '-')
    captured = bool(summed & {i for c in ev for i, sg in c[1] if not sg})

    def mech(kind):
        if two_values or captured:
            return "factorization.one-name-two-values"
        if same_base:
            return "factorization.same-base-twice"
        if reflexive:
            return "factorization.reflexive-variable"
        return None

    if exc is not None:
        kernel.violation("C19", "factorization-total", f"do_counterfactual_factor_factorization({gev.key(ev)}) raised "
                         f"{type(exc).__name__}: {exc}; graph {case['graph']}", case=case, mech=mech("raise"))
        return
    expr, revent = res
    kernel.count("C19:factorization:checked")
    from .denote import leaves

    try:
        if sum(1 for _ in leaves(expr)) >= 2:
            kernel.count("C19:factorization:with-two-or-more-factors")
    except TypeError:
        pass

    def truth(m, rv, av, zero_check=False):
        return event_prob(m, ev, rv, av)

    try:
        _check_structure(expr, ref, ev, case, mech)
    except Exception as e:  # noqa: BLE001
        kernel.monitor_error("c19.factorization-structure", e)
    judge_expression("C19", "do_counterfactual_factor_factorization", expr, ref, ev, truth, lambda h, m: m,
                     f"fact|{sorted(map(str, ref.D))}|{sorted(sorted(map(str, e)) for e in ref.B)}", case, mech,
                     modes=("bound-env-literal", "plus-literal-minus-contextual", "bound-literal", "env-literal", "literal"))


# ---- (e') the definition-level pieces of the factorisation: ctf-factor form, grouping by district, Eq. 11-15 ----------


def _ctf_form_ref(g: RG, name, world):
    """Definition 3.4: W_{pa_w} - the parents of W as subscripts; a parent the variable was already subscripted with
    keeps that value (True/False), an added parent carries a contextual value (None here: its mark is not compared)."""
    w = dict((i, bool(sg)) for i, sg in world)
    return (name, tuple(sorted((p, w.get(p)) for p in g.pa(name))))


def _ctf_key(v, g: RG, orig_world=None):
    """(name, ((parent, mark-or-None)...)) of a variable y0 produced; marks of subscripts that were not in the original
    world are blanked so that the comparison does not depend on how a contextual value is written."""
    ow = dict((i, bool(sg)) for i, sg in (orig_world or ()))
    return (v.name, tuple(sorted((i.name, (bool(i.star) if i.name in ow else None))
                                 for i in getattr(v, "interventions", ()) or ())))


def _is_ctf_form_ref(g: RG, v) -> bool:
    """The documented test: every parent of the base is a subscript and the base itself is not (a plain variable must
    have no parents)."""
    subs = {i.name for i in getattr(v, "interventions", ()) or ()}
    return v.name not in subs and set(g.pa(v.name)) <= subs


def _judge_factors(label, items, graph, res, exc, var_of):
    ref = RG.from_nx(graph)
    try:
        items = list(items)
        vars_ = [var_of(x) for x in items]
    except Exception:  # noqa: BLE001
        kernel.count("C19:factors:uninspectable-argument")
        return
    names = {v.name for v in ref.V}
    if not ref.is_acyclic() or any(v.name not in names for v in vars_):
        kernel.count("C19:factors:invalid-input-skipped")
        return
    g = _names_rg(ref)
    in_form = all(_is_ctf_form_ref(g, v) for v in vars_)
    case = {"graph": gd_of(ref), "variables": [cfvar_json(v) for v in vars_], "op": label}
    if mon_id.cards_hint():
        case["cards"] = mon_id.cards_hint()
    if exc is not None:
        if in_form or not isinstance(exc, ValueError):
            kernel.violation("C19", "ctf-factors", f"{label} raised {type(exc).__name__}: {exc} on variables "
                             f"{sorted(map(str, vars_))} ({'in' if in_form else 'not in'} ctf-factor form); graph "
                             f"{case['graph']}", case=case)
        return
    kernel.count("C19:factors:checked")
    if not in_form:
        kernel.violation("C19", "ctf-factors", f"{label} accepted {sorted(map(str, vars_))} although some variable is not in "
                         f"ctf-factor form; graph {case['graph']}", case=case)
        return
    problems = []
    try:
        blocks = [set(b) for b in res]
    except TypeError:
        kernel.violation("C19", "ctf-factors", f"{label} returned {type(res).__name__}", case=case)
        return
    flat = [x for b in blocks for x in b]
    if set(flat) != set(items) or len(flat) != len(set(items)):
        problems.append(f"the blocks {[sorted(map(str, b)) for b in blocks]} do not partition the {len(set(items))} given "
                        f"variables {sorted(map(str, set(items)))}")
    dist = {n: i for i, d in enumerate(g.districts()) for n in d}
    ids = []
    for b in blocks:
        ds = {dist[var_of(x).name] for x in b}
        if len(ds) != 1:
            problems.append(f"block {sorted(map(str, b))} spans {len(ds)} districts")
        ids.extend(ds)
    if len(ids) != len(set(ids)):
        problems.append("two blocks belong to one district")
    if any(not b for b in blocks):
        problems.append("an empty block")
    if problems:
        kernel.violation("C19", "ctf-factors", f"{label} on {case['graph']}: " + "; ".join(problems[:3]), case=case)


def _post_factors(snap, res, *, event, graph):
    _judge_factors("get_counterfactual_factors", event, graph, res, None, lambda v: v)


def _raise_factors(snap, exc, *, event, graph):
    _judge_factors("get_counterfactual_factors", event, graph, None, exc, lambda v: v)


def _post_factors_values(snap, res, *, event, graph):
    _judge_factors("get_counterfactual_factors_retaining_variable_values", event, graph, res, None, lambda t: t[0])


def _raise_factors_values(snap, exc, *, event, graph):
    _judge_factors("get_counterfactual_factors_retaining_variable_values", event, graph, None, exc, lambda t: t[0])


def _post_is_form(snap, res, *, event, graph):
    ref = RG.from_nx(graph)
    names = {v.name for v in ref.V}
    try:
        vars_ = list(event)
    except TypeError:
        return
    if any(getattr(v, "name", None) not in names for v in vars_):
        kernel.count("C19:ctf-form:invalid-input-skipped")
        return
    g = _names_rg(ref)
    want = all(_is_ctf_form_ref(g, v) for v in vars_)
    kernel.count("C19:ctf-form:checked")
    if bool(res) != want:
        kernel.violation("C19", "ctf-form", f"is_counterfactual_factor_form({sorted(map(str, vars_))}) = {res}, the documented "
                         f"test (all parents subscripted, the variable itself not) gives {want}; graph {gd_of(ref)}",
                         case={"graph": gd_of(ref), "variables": [cfvar_json(v) for v in vars_], "op": "is_ctf_form"})


def _post_same_district(snap, res, event, graph):
    ref = RG.from_nx(graph)
    names = {v.name for v in ref.V}
    vars_ = list(event)
    if any(getattr(v, "name", None) not in names for v in vars_):
        return
    g = _names_rg(ref)
    dist = {n: i for i, d in enumerate(g.districts()) for n in d}
    want = len({dist[v.name] for v in vars_}) <= 1
    kernel.count("C19:same-district:checked")
    if bool(res) != want:
        kernel.violation("C19", "same-district", f"same_district({sorted(map(str, vars_))}) = {res}, districts say {want}; graph "
                         f"{gd_of(ref)}", case={"graph": gd_of(ref), "variables": [cfvar_json(v) for v in vars_],
                                                "op": "same_district"})


def _post_convert(snap, res, *, event, graph):
    ref = RG.from_nx(graph)
    names = {v.name for v in ref.V}
    try:
        pairs = list(event)
    except TypeError:
        return
    if not ref.is_acyclic() or any(getattr(v, "name", None) not in names for v, _ in pairs):
        kernel.count("C19:convert:invalid-input-skipped")
        return
    g = _names_rg(ref)
    kernel.count("C19:convert:checked")
    case = {"graph": gd_of(ref), "variables": [cfvar_json(v) for v, _ in pairs], "op": "convert_to_ctf_form"}
    if mon_id.cards_hint():
        case["cards"] = mon_id.cards_hint()
    if len(res) != len(pairs):
        kernel.violation("C19", "ctf-convert", f"convert_to_counterfactual_factor_form returned {len(res)} items for "
                         f"{len(pairs)}", case=case)
        return
    for (v, val), (w, val2) in zip(pairs, res):
        name, world = cfvar_json(v)
        want = _ctf_form_ref(g, name, world)
        got = _ctf_key(w, g, world)
        if got != want or val2 != val:
            kernel.violation("C19", "ctf-convert", f"convert_to_counterfactual_factor_form: {v} (value {val}) became {w} (value "
                             f"{val2}); Definition 3.4 gives {want[0]} with subscripts {list(want[1])} and the same value; graph "
                             f"{case['graph']}", case=case)
            return


def structure_of_factorization(expr, ref: RG, ev):
    """Equations 11-15 as sets: (blocks, sum range) of the expected factorisation, and what the returned expression has.
    Blocks are sets of (name, ((parent, mark-or-None)...)): the ancestors (Definition 2.1) in ctf-factor form, grouped by
    the districts of G restricted to the ancestors' vertices.  -> (want_blocks, want_range, got_blocks, got_range) or None
    when the expression is not a sum-product of plain probabilities."""
    from y0.dsl import One, Probability, Product, Sum

    g = _names_rg(ref)
    anc = set()
    for name, world, _ in ev:
        anc |= ref_ancestors(g, name, tuple((i, bool(sg)) for i, sg in world))
    bases = {a[0] for a in anc}
    sub = g.subgraph(bases)
    dist = {n: i for i, d in enumerate(sub.districts()) for n in d}
    want: dict = {}
    for name, world in anc:
        want.setdefault(dist[name], set()).add(_ctf_form_ref(g, name, world) + (world,))
    want_range = bases - {c[0] for c in ev}
    body = expr
    got_range = set()
    if isinstance(body, Sum):
        got_range = {r.name for r in body.ranges}
        body = body.expression
    factors = list(body.expressions) if isinstance(body, Product) else [body]
    got = []
    for f in factors:
        if isinstance(f, One):
            continue
        if not isinstance(f, Probability) or f.parents:
            return None
        got.append(f.children)
    return want, want_range, got, got_range


def _check_structure(expr, ref: RG, ev, case, mech_fn):
    st = structure_of_factorization(expr, ref, ev)
    if st is None:
        kernel.count("C19:factorization:structure-not-a-plain-sum-product")
        return
    want, want_range, got, got_range = st
    g = _names_rg(ref)
    kernel.count("C19:factorization:structure-compared")
    # every expected variable must appear, in a block with exactly its district mates; worlds are matched through the
    # subscripts the ancestor already had (an added parent's mark is free)
    want_blocks = sorted((sorted(((n, subs) for n, subs, _w in b), key=repr) for b in want.values()), key=repr)
    got_blocks = sorted((sorted((_ctf_key(v, g, None)[:1] + (tuple(sorted((i.name, None) for i in getattr(v, "interventions", ()) or ())),)
                                 for v in b), key=repr) for b in got), key=repr)
    blank = sorted((sorted(((n, tuple((p, None) for p, _ in subs)) for n, subs in b), key=repr) for b in want_blocks), key=repr)
    problems = []
    if blank != got_blocks:
        problems.append(f"factors over {got_blocks} but Equations 11-15 give {blank} (names with their subscript names)")
    else:
        # marks of the subscripts an ancestor already carried must survive
        for wb in want.values():
            for n, subs, world in wb:
                fixed = {p: m for p, m in subs if m is not None}
                if not fixed:
                    continue
                ok = any(v.name == n and {i.name: bool(i.star) for i in getattr(v, "interventions", ()) or () if i.name in fixed} == fixed
                         and {i.name for i in getattr(v, "interventions", ()) or ()} == {p for p, _ in subs}
                         for b in got for v in b)
                if not ok:
                    problems.append(f"no factor variable for {n} with the subscript values {fixed}")
    if got_range != want_range:
        problems.append(f"the sum ranges over {sorted(got_range)} but the ancestors outside the query are {sorted(want_range)}")
    if problems:
        kernel.violation("C19", "factorization-structure", f"do_counterfactual_factor_factorization({gev.key(ev)}) = {expr}: " +
                         "; ".join(problems[:3]) + f"; graph {case['graph']}", case=case, mech=mech_fn("structure"))


def _post_factorization(snap, res, *, variables, graph):
    _judge_factorization(variables, graph, res, None)


def _raise_factorization(snap, exc, *, variables, graph):
    _judge_factorization(variables, graph, None, exc)


def install_blocks():
    import y0.algorithm.counterfactual_transport.ancestor_utils as au
    import y0.algorithm.counterfactual_transport.api as api

    kernel.install_function(au, "minimize_counterfactual", label="minimize_counterfactual", post=_post_minimize,
                            on_raise=_raise_minimize)
    kernel.install_function(au, "get_ancestors_of_counterfactual", label="get_ancestors_of_counterfactual", post=_post_ancestors)
    kernel.install_function(au, "get_ancestral_components", label="get_ancestral_components", post=_post_components)
    kernel.install_function(api, "simplify", label="simplify", post=_post_simplify, on_raise=_raise_simplify)
    kernel.install_function(api, "do_counterfactual_factor_factorization", label="do_counterfactual_factor_factorization",
                            post=_post_factorization, on_raise=_raise_factorization)
    kernel.install_function(api, "get_counterfactual_factors", label="get_counterfactual_factors", post=_post_factors,
                            on_raise=_raise_factors)
    kernel.install_function(api, "get_counterfactual_factors_retaining_variable_values",
                            label="get_counterfactual_factors_retaining_variable_values", post=_post_factors_values,
                            on_raise=_raise_factors_values)
    kernel.install_function(api, "is_counterfactual_factor_form", label="is_counterfactual_factor_form", post=_post_is_form)
    kernel.install_function(api, "same_district", label="same_district", post=_post_same_district)
    kernel.install_function(api, "convert_to_counterfactual_factor_form", label="convert_to_counterfactual_factor_form",
                            post=_post_convert)


# ---------------------------------------------------------------------------------------
# C09: ctfTRu / ctfTR


def domain_json(graph, topo, policy, population):
    from y0.algorithm.transport import is_transport_node

    regular = [n for n in graph.nodes() if not is_transport_node(n)]
    return {"transport": sorted(n.name[2:] for n in graph.nodes() if is_transport_node(n)),
            "policy": sorted(v.name for v in policy), "population": str(population.population),
            "graph": {"nodes": sorted(n.name for n in regular),
                      "di": sorted([u.name, v.name] for u, v in graph.directed.edges() if not is_transport_node(u)),
                      "bi": sorted(sorted([u.name, v.name]) for u, v in graph.undirected.edges())},
            "topo": [n.name for n in topo]}


def _family_fn(ref, doms):
    def fam(h, m):
        rng = random.Random("ctf-fam:" + h)
        out = {TARGET: m}
        for d in doms:
            if d["population"] == TARGET:
                if d["policy"]:
                    # an experiment run in the target population: the only data tagged pi* that the caller has, so that
                    # is what a PP[pi*] term of the answer stands for (the truth is still computed in m itself)
                    out[TARGET] = m.redraw([], rng, cut_parents=sorted(d["policy"]))
                continue
            out[d["population"]] = m.redraw(sorted(d["transport"]), rng, cut_parents=sorted(d["policy"]))
        return out

    return fam


def _domains_follow_convention(ref: RG, doms) -> bool:
    """Each domain graph = target graph minus the edges into / bidirected edges at its policy variables."""
    g = _names_rg(ref)
    for d in doms:
        Z = set(d["policy"])
        want_di = sorted([u, v] for u, v in g.D if v not in Z)
        want_bi = sorted(sorted(e) for e in g.B if len(e) == 2 and not (set(e) & Z))
        if d["graph"]["di"] != want_di or d["graph"]["bi"] != want_bi or set(d["graph"]["nodes"]) != set(g.V):
            return False
        if d["population"] == TARGET and d["transport"]:
            return False
    # data tagged pi*: the observational target distribution, or ONE experiment in the target population - with both
    # (or several experiments) a PP[pi*] term of the answer would not say which table it means
    stars = [d for d in doms if d["population"] == TARGET]
    if any(d["policy"] for d in stars) and len(stars) > 1:
        return False
    return True


def _candidates(query_ev, returned_ev):
    """pseudo-conjuncts [name, [], value] for every value a base name is given: by the returned event, by the
    subscripts of the returned event's variables and by the subscripts of the queried event."""
    out = []
    for n, w, v in returned_ev:
        if v is not None:
            out.append([n, [], v])
        out.extend([i, [], s] for i, s in w)
    for n, w, v in query_ev:
        out.extend([i, [], s] for i, s in w)
    return out


def _judge_ctf(label, snap, res, exc):
    from y0.dsl import Expression

    ref, doms = snap["ref"], snap["domains"]
    if ref is None:
        kernel.count("C09:rejected-by-own-validation")
        return
    out_ev, cond_ev = snap["outcomes"], snap["conditions"]
    case = {"graph": gd_of(ref), "outcomes": out_ev, "conditions": cond_ev, "domains": doms, "op": label}
    if mon_id.cards_hint():
        case["cards"] = mon_id.cards_hint()
    if not snap["valid"]:
        kernel.count("C09:rejected-by-own-validation")
        return
    if not _domains_follow_convention(ref, doms):
        kernel.count("C09:domain-graphs-outside-convention-skipped")
        if exc is None:
            return
        # (an error other than FAIL on an input that passes the procedure's own validation is judged all the same)
        kernel.count("C09:errors-outside-convention-judged")
    query = out_ev + cond_ev
    g = _names_rg(ref)
    valued = [c for c in query if c[2] is not None]
    anc_union = set()
    for c in query:
        anc_union |= ref_ancestors(g, c[0], c[1])
    same_base = len({(c[0], tuple(map(tuple, c[1]))) for c in query}) != len({c[0] for c in query}) or \
        len({a[0] for a in anc_union}) < len(anc_union)
    observed = {c[0]: c[2] for c in valued if c[0] not in {i for i, _ in c[1]}}
    contradicted = [(i, bool(s)) for c in query for i, s in c[1] if i in observed and bool(observed[i]) != bool(s)]
    two_values = False
    # one variable set to both values by different conjuncts: when the two settings reach DIFFERENT c-components of
    # the ancestral graph each ctf-factor is consistent and y0 answers -- with an expression over names that cannot
    # say which value is meant (listed); when they meet in ONE c-component the factor is inconsistent and the
    # procedure must FAIL (not listed: an answer there is a new violation)
    sub_ag = g.subgraph({a[0] for a in anc_union})
    pm_ag = g.parents_map()
    dist_of = {n: d for d in sub_ag.districts() for n in d}
    reach: dict = {}
    for name_a, subs in anc_union:
        for i, sgn in subs:
            if i in pm_ag.get(name_a, ()):
                reach.setdefault((i, sgn), set()).add(dist_of[name_a])
    for i in {i for (i, _) in reach}:
        plus, minus = reach.get((i, True), set()), reach.get((i, False), set())
        if plus and minus and not (plus & minus):
            two_values = True
    # the same for a variable OBSERVED at one value and set to the other by a subscript: listed only when the observed
    # variable and the variables carrying that subscript sit in different c-components (inside one c-component the
    # counterfactual factor is inconsistent by Definition 4.1 and the procedure must fail - an answer is a new violation)
    for i, sgn in contradicted:
        if dist_of.get(i) not in reach.get((i, sgn), set()):
            two_values = True
    summed = {a[0] for a in anc_union} - {c[0] for c in query}
    if label == "ctfTR":
        summed |= {c[0] for c in out_ev}  # the conditional procedure normalises by summing over the outcome variables
    # (ctfTRu/ctfTR answers carry no subscripts at all, so the sign of the literal subscript makes no difference here)
    captured = bool(summed & {i for c in query for i, _ in c[1]})
    reflexive = any(c[0] in {i for i, _ in c[1]} for c in query)

    # (the procedure minimises its query against G itself since repair b06e647; what is left:)
    def _min(c):
        return (c[0], tuple(map(tuple, ref_minimal_subscripts(g, c[0], c[1]))))

    nonminimal = False
    contradiction = False
    if label == "ctfTR" and cond_ev:
        # the ancestral sets are re-computed after cutting the edges out of the conditioned variables, which can
        # make a subscript irrelevant that was relevant in G (V1->V11->V2: V2_{v1} given V11_{v1})
        g_cut = g.remove_out_edges({c[0] for c in cond_ev})
        nonminimal = any(_min(c)[1] and ref_minimal_subscripts(g_cut, c[0], list(_min(c)[1])) != [list(x) for x in _min(c)[1]]
                         for c in query)
        # an outcome and a condition that are one variable (after minimisation) with two different values: the event
        # is impossible, y0 has no check for it (its validation step 17 is commented out)
        cv = {}
        for c in cond_ev:
            if c[2] is not None:
                cv.setdefault(_min(c), set()).add(bool(c[2]))
        contradiction = any(c[2] is not None and _min(c) in cv and cv[_min(c)] != {bool(c[2])} for c in out_ev)

    detached_condition = False
    if label == "ctfTR" and cond_ev:
        try:
            comps = ref_ancestral_components(g, [[c[0], c[1]] for c in cond_ev], [[c[0], c[1]] for c in query])
            out_names = {c[0] for c in out_ev}
            for comp in comps:
                names_c = {x[0] for x in comp}
                if not (names_c & out_names) and (names_c & {c[0] for c in cond_ev}):
                    detached_condition = True
        except Exception:  # noqa: BLE001
            pass

    def mech(kind):
        if reflexive:
            return "ctf.reflexive-event-variable"
        if kind == "raise" and detached_condition:
            return "ctfTR.condition-outside-the-outcomes-ancestral-components"
        if kind in ("raise", "value") and label == "ctfTR" and nonminimal:
            return "ctfTR.nonminimal-variable-not-found-in-its-ancestral-component"
        if same_base:
            return "ctf.same-base-twice"
        if two_values or captured:
            return "ctf.one-name-two-values"
        return None

    if exc is not None:
        kernel.violation("C09", "total", f"{label} raised {type(exc).__name__}: {str(exc)[:300]} on an input that passes its own "
                         f"validation: {case}", case=case, mech=mech("raise"))
        return
    if res is None:
        kernel.count("C09:fail-answers")
        return
    expr, revent = res.expression, res.event
    if not isinstance(expr, Expression):
        kernel.violation("C09", "total", f"{label} returned {type(expr).__name__} as expression", case=case)
        return
    kernel.count("C09:answers")
    returned = gev.from_event(revent) if revent is not None else []
    value_ev = _candidates(valued, returned)

    unvalued = [c for c in query if c[2] is None]

    def _events(m, rv, av, conj, env):
        out = gev.model_events([c for c in conj if c[2] is not None], rv, av)
        for n, w, _ in conj:
            if _ is None and env is not None and n in env:
                out.append(({i: (av[i] if s2 else rv[i]) for i, s2 in w}, n, env[n]))
        return out

    def truth(m, rv, av, env=None, zero_check=False):
        # a conjunct without a value stands for "whatever value the variable takes": it is a free variable of the
        # answer, so the comparison is made for every value of it
        pc = m.prob(_events(m, rv, av, cond_ev, env)) if cond_ev else Fraction(1)
        if zero_check:
            return event_prob(m, valued, rv, av)
        if pc == 0:
            return None
        return m.prob(_events(m, rv, av, query, env)) / pc

    if unvalued:
        truth.needs_env = True
        truth.env_names = sorted({c[0] for c in unvalued})

    from .denote import leaves

    try:
        if any(str(getattr(l, "population", TARGET)) != TARGET for l in leaves(expr)):
            kernel.count("C09:answers-using-a-source-domain")
    except TypeError:
        pass
    tag = f"{label}|{sorted(map(str, ref.D))}|{sorted(sorted(map(str, e)) for e in ref.B)}|{[(d['population'], d['transport'], d['policy']) for d in doms]}"
    judge_expression("C09", label, expr, ref, value_ev, truth, _family_fn(ref, doms), tag, case, mech,
                     modes=("bound-env-literal",))


def _snap_ctf(label, event, outcomes, conditions, target_domain_graph, domain_graphs, domain_data):
    import y0.algorithm.counterfactual_transport.api as api

    valid = True
    try:
        ref = RG.from_nx(target_domain_graph)
    except Exception:  # noqa: BLE001 -- not even a graph (the repository's tests probe the validation with junk)
        return {"ref": None, "valid": False, "domains": [], "outcomes": [], "conditions": []}
    try:
        if label == "ctfTRu":
            v = api._validate_transport_unconditional_counterfactual_query_input
            v = getattr(v, "__vmon_original__", v)
            v(event=event, target_domain_graph=target_domain_graph, domain_graphs=domain_graphs, domain_data=domain_data)
        else:
            v = api._validate_transport_conditional_counterfactual_query_input
            v = getattr(v, "__vmon_original__", v)
            v(outcomes=outcomes, conditions=conditions, target_domain_graph=target_domain_graph,
              domain_graphs=domain_graphs, domain_data=domain_data)
    except Exception:  # noqa: BLE001
        valid = False
    doms = []
    if valid:
        for (g, topo), (policy, pp) in zip(domain_graphs, domain_data):
            doms.append(domain_json(g, topo, policy, pp))
    try:
        out_ev = gev.from_event(event if label == "ctfTRu" else outcomes)
        cond_ev = [] if label == "ctfTRu" else gev.from_event(conditions)
    except Exception:  # noqa: BLE001
        valid, out_ev, cond_ev = False, [], []
    FACTS["inner_valid"] = valid
    c = kernel.LOG.case
    if isinstance(c, dict) and c.get("via") == "wrapper" and valid:
        # the CFTDomain / valued-variable call form: what reaches the algorithm must be what the caller wrote
        def norm(e):
            return sorted([n, sorted([i, bool(sg)] for i, sg in w), v] for n, w, v in e)

        kernel.count("C09:wrapper-calls-compared")
        if norm(out_ev) != norm(c.get("outcomes") or []) or norm(cond_ev) != norm(c.get("conditions") or []):
            kernel.violation("C09", "wrapper-conversion", f"the caller asked for outcomes {norm(c.get('outcomes') or [])} given "
                             f"{norm(c.get('conditions') or [])}; the wrapper handed {norm(out_ev)} given {norm(cond_ev)} to "
                             f"the algorithm", case=dict(c))
        want_doms = c.get("domains") or []
        if len(want_doms) == len(doms):
            for wd, d in zip(want_doms, doms):
                if sorted(wd.get("policy") or []) != sorted(d.get("policy") or []) or \
                        sorted(wd.get("transport") or []) != sorted(d.get("transport") or []):
                    kernel.violation("C09", "wrapper-conversion", f"domain {wd} reached the algorithm as {d}", case=dict(c))
    return {"ref": ref, "valid": valid, "domains": doms, "outcomes": out_ev, "conditions": cond_ev}


_ctf_depth = {"n": 0}


def _pre_ctfu(*, event, target_domain_graph, domain_graphs, domain_data):
    _ctf_depth["n"] += 1
    if _ctf_depth["n"] > 1:
        return None
    return _snap_ctf("ctfTRu", event, None, None, target_domain_graph, domain_graphs, domain_data)


def _post_ctfu(snap, res, **kw):
    _ctf_depth["n"] -= 1
    if snap is not None:
        _judge_ctf("ctfTRu", snap, res, None)


def _raise_ctfu(snap, exc, **kw):
    _ctf_depth["n"] -= 1
    if snap is not None:
        _judge_ctf("ctfTRu", snap, None, exc)


def _pre_ctfc(*, outcomes, conditions, target_domain_graph, domain_graphs, domain_data):
    _ctf_depth["n"] += 1
    if _ctf_depth["n"] > 1:
        return None
    return _snap_ctf("ctfTR", None, outcomes, conditions, target_domain_graph, domain_graphs, domain_data)


def _post_ctfc(snap, res, **kw):
    _ctf_depth["n"] -= 1
    if snap is not None:
        _judge_ctf("ctfTR", snap, res, None)


def _raise_ctfc(snap, exc, **kw):
    _ctf_depth["n"] -= 1
    if snap is not None:
        _judge_ctf("ctfTR", snap, None, exc)


def _raise_wrapper(label):
    def on_raise(snap, exc, **kw):
        c = kernel.LOG.case
        if isinstance(c, dict) and c.get("via") == "wrapper" and c.get("direct_form_passes_validation") \
                and FACTS.get("inner_valid") is False:
            # the same query in the tuple form passes y0's validation, but what the wrapper handed to the algorithm did
            # not: the wrapper spoiled a valid input
            kernel.violation("C09", "wrapper-total", f"{label} raised {type(exc).__name__}: {str(exc)[:200]} although the "
                             f"same arguments in the tuple form pass the algorithm's own validation", case=dict(c))

    return on_raise


def _pre_wrapper(**kw):
    FACTS["inner_valid"] = None
    return {}


def install_ctf():
    import y0.algorithm.counterfactual_transport.api as api

    install_blocks()
    kernel.install_function(api, "unconditional_cft", label="unconditional_cft", pre=_pre_wrapper,
                            on_raise=_raise_wrapper("unconditional_cft"))
    kernel.install_function(api, "conditional_cft", label="conditional_cft", pre=_pre_wrapper,
                            on_raise=_raise_wrapper("conditional_cft"))
    kernel.install_function(api, "transport_unconditional_counterfactual_query", label="ctfTRu", pre=_pre_ctfu,
                            post=_post_ctfu, on_raise=_raise_ctfu)
    kernel.install_function(api, "transport_conditional_counterfactual_query", label="ctfTR", pre=_pre_ctfc,
                            post=_post_ctfc, on_raise=_raise_ctfc)
    kernel.install_function(api, "transport_district_intervening_on_parents", label="sigma_TR")
