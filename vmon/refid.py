"""O4 — reference identifiability decision (Tian–Pearl c-component IDENTIFY on sets).

Sound and complete for P(y | do(x)) in semi-Markovian models (Huang–Valtorta 2006,
Shpitser–Pearl 2006); shares no code shape with y0's line-1..7 recursion.
"""

from __future__ import annotations

from .refgraph import RG


def identify_cfactor(ref: RG, C: frozenset, T: frozenset) -> bool:
    """Is Q[C] identifiable from Q[T]?  (C ⊆ T, G[C] a single c-component, T a c-component of
    the graph in which it is considered.)"""
    C, T = frozenset(C), frozenset(T)
    while True:
        gt = ref.subgraph(T)
        A = frozenset(gt.ancestors_inclusive(C))
        if A == C:
            return True
        if A == T:
            return False
        ga = ref.subgraph(A)
        Tn = None
        for d in ga.districts():
            if C <= d:
                Tn = d
                break
        if Tn is None:  # C not inside one district of G[A]: precondition broken
            raise ValueError("C is not bidirected-connected inside An(C)")
        T = frozenset(Tn)


def identifiable(ref: RG, X, Y) -> bool:
    """Is P(Y | do(X)) identifiable from P(V) in the ADMG ref?"""
    X, Y = set(X), set(Y)
    V = set(ref.V)
    D = ref.subgraph(V - X).ancestors_inclusive(Y)
    gd = ref.subgraph(D)
    districts_g = ref.districts()
    for Dj in gd.districts():
        T = next(d for d in districts_g if Dj <= d)
        if not identify_cfactor(ref, Dj, T):
            return False
    return True


def conditional_identifiable(ref: RG, X, Y, Z) -> bool:
    """Is P(Y | do(X), Z) identifiable?  (Shpitser–Pearl IDC is complete: move every Z that rule 2
    allows into X, then the joint P(Y, Z' | do(X')) must be identifiable.)"""
    X, Y, Z = set(X), set(Y), set(Z)
    changed = True
    while changed:
        changed = False
        for z in sorted(Z, key=str):
            g = ref.remove_in_edges(X).remove_out_edges({z})
            if all(g.m_separated(y, z, X | (Z - {z})) for y in Y):
                X.add(z)
                Z.discard(z)
                changed = True
                break
    return identifiable(ref, X, Y | Z)
