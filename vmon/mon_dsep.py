"""C04 monitor: post-condition on the real ``are_d_separated`` against O3's Bayes-ball
m-separation on the explicit latent DAG; symmetry; canonical judgement record."""

from __future__ import annotations

from . import kernel
from .refgraph import RG

PROP = "C04"

_cache: dict = {}


def _ref_for(graph):
    """RG of the graph, cached per object while its node and edge SETS stay the same (a count-based signature would
    survive a rewiring that moves an edge - the monitor would then judge against the graph as it was)."""
    key = id(graph)
    sig = (frozenset(graph.directed.nodes()) | frozenset(graph.undirected.nodes()), frozenset(graph.directed.edges()),
           frozenset(frozenset(e) for e in graph.undirected.edges()))
    hit = _cache.get(key)
    if hit is not None and hit[0] == sig and hit[1] is graph:
        return hit[2]
    ref = RG.from_nx(graph)
    if len(_cache) > 64:
        _cache.clear()
    _cache[key] = (sig, graph, ref, {})
    return ref


def _post(snap, res, graph, a, b, *, conditions=None):
    if conditions is None or isinstance(conditions, (set, frozenset, list, tuple, dict)):
        C = set(conditions or ())
    else:
        # a one-shot iterable was consumed by the call: the driver's record of the query stands in for it
        c = kernel.LOG.case
        if isinstance(c, dict) and isinstance(c.get("C"), list) and not c.get("cf") and c.get("a") == str(a) and c.get("b") == str(b):
            from .gen.graphs import node

            C = {node(n) for n in c["C"]}
        else:
            kernel.count("C04:one-shot-conditions-not-judged")
            return
    ref = _ref_for(graph)
    if a == b or a in C or b in C:
        kernel.count("C04:degenerate-query")
        return
    if not ref.is_acyclic():
        kernel.count("C04:cyclic-graph-skipped")
        return
    conn_cache = _cache[id(graph)][3]
    ck = (a, frozenset(C))
    if ck not in conn_cache:
        if len(conn_cache) > 4096:
            conn_cache.clear()
        conn_cache[ck] = ref.m_connected_set(a, C)
    want = b not in conn_cache[ck]
    got = bool(res)
    case = {"graph": _gd(ref), "a": str(a), "b": str(b), "C": sorted(map(str, C))}
    if set(graph.directed.nodes()) != set(graph.undirected.nodes()):
        case["raw"] = True  # built with the dataclass constructor: replay rebuilds it the same way
    if got != want:
        kernel.violation(
            PROP, "verdict",
            f"are_d_separated({a}, {b} | {sorted(map(str, C))}) = {got}, m-separation in the latent DAG = {want}; "
            f"graph {case['graph']}",
            witness=case, mech=classify(ref, a, b, C, got, want), case=case,
        )
    # judgement record
    ok = (
        res.separated == got
        and {res.left, res.right} == {a, b}
        and str(res.left) <= str(res.right)
        and isinstance(res.conditions, tuple)
        and set(res.conditions) == C
        and len(res.conditions) == len(C)
        and list(res.conditions) == sorted(res.conditions, key=str)
    )
    if ok and all(type(v).__name__ == "Variable" for v in (res.left, res.right, *res.conditions)):
        try:
            ok = bool(res.is_canonical)  # the library's own predicate must agree with the record it built
        except Exception:  # noqa: BLE001
            ok = False
    if not ok:
        kernel.violation(PROP, "canonical-record", f"judgement {res!r} for query ({a},{b}|{sorted(map(str, C))}) is not canonical",
                         case=case)
    # symmetry
    import y0.algorithm.conditional_independencies as ci

    orig = getattr(ci.are_d_separated, "__vmon_original__", ci.are_d_separated)
    try:
        rev = orig(graph, b, a, conditions=C)
        if bool(rev) != got:
            kernel.violation(PROP, "symmetry", f"verdict({a},{b})={got} but verdict({b},{a})={bool(rev)} given {sorted(map(str, C))}",
                             case=case)
        elif rev != res:
            kernel.violation(PROP, "symmetry", f"judgement records differ between argument orders: {res!r} vs {rev!r}", case=case)
    except Exception as e:  # noqa: BLE001
        kernel.violation(PROP, "symmetry", f"swapped-argument call raised {type(e).__name__}: {e}", case=case)


def _gd(ref: RG):
    return {
        "nodes": sorted(map(str, ref.V)),
        "di": sorted([str(u), str(v)] for u, v in ref.D),
        "bi": sorted(sorted(map(str, e)) for e in ref.B),
    }


def classify(ref, a, b, C, got, want):
    return None


def install():
    import y0.algorithm.conditional_independencies as ci

    kernel.install_function(ci, "are_d_separated", label="are_d_separated", post=_post)
