"""Monitors for the counterfactual (level-3) algorithms: make_counterfactual_graph (C18),
id_star (C07), idc_star (C08) — post-conditions judged by O1's multi-world evaluation
(same exogenous noise across worlds: Pearl's three-step semantics, literally).
"""

from __future__ import annotations

import hashlib
import itertools as itt
import random
from fractions import Fraction

from . import kernel, mon_id
from .denote import Denoter, Unbound, Undefined, free_variables, leaves
from .gen import events as gev
from .refgraph import RG
from .snap import freeze_graph, freeze_value

CONFIG = {"K": 2, "max_card": 3}


def models_with_values(ref: RG, tag: str, K=None):
    """[(seed, model, refvals, altvals)] — reference/alternative value of every variable drawn per model."""
    out = []
    for h, m in mon_id.models_for(ref, tag, K or CONFIG["K"], CONFIG["max_card"]):
        rng = random.Random("vals:" + h)
        rv, av = {}, {}
        for v in m.order:
            rv[v] = rng.randrange(m.card[v])
            # (a one-valued constant has no alternative value; the drivers never give such a variable a value)
            av[v] = rng.choice([x for x in range(m.card[v]) if x != rv[v]] or [rv[v]])
        out.append((h, m, rv, av))
    return out


def event_prob(m, ev, rv, av) -> Fraction:
    return m.prob(gev.model_events(ev, rv, av))


def valid_event(ref: RG, ev) -> bool:
    names = {v.name for v in ref.V}
    return all(n in names and all(i in names for i, _ in w) for n, w, _ in ev) and ref.is_acyclic()


def gd_of(ref):
    return mon_id.gd_of(ref)


# ---------------------------------------------------------------------------------------
# C18


def _pre_cg(graph, event):
    return {"event_fz": freeze_value(event), "ref": RG.from_nx(graph), "ev": gev.from_event(event), "fz": freeze_graph(graph)}


def _post_cg(snap, res, graph, event):
    from y0.graph import NxMixedGraph

    ref, ev = snap["ref"], snap["ev"]
    case = {"graph": gd_of(ref), "event": ev}
    if mon_id.cards_hint():
        case["cards"] = mon_id.cards_hint()
    if isinstance(kernel.LOG.case, dict) and kernel.LOG.case.get("again"):
        case["again"] = True  # second call of a history in which the caller edited the first answer
    if not valid_event(ref, ev) or not ev:
        kernel.count("C18:invalid-input-skipped")
        return
    if freeze_value(event) != snap["event_fz"]:
        kernel.violation("C18", "input-event-unchanged", f"make_counterfactual_graph modified the caller's event dict: "
                         f"{ev} -> {gev.from_event(event)}", case=case)
    if freeze_graph(graph) != snap["fz"]:
        kernel.violation("C18", "input-graph-unchanged", "make_counterfactual_graph modified the caller's graph", case=case)
    if not (isinstance(res, tuple) and len(res) == 2 and isinstance(res[0], NxMixedGraph)):
        kernel.violation("C18", "type", f"make_counterfactual_graph returned {type(res).__name__}", case=case)
        return
    cf_graph, new_event = res
    tag = f"cg|{sorted(map(str, ref.D))}|{sorted(sorted(map(str, e)) for e in ref.B)}"
    mv = models_with_values(ref, tag)
    if new_event is None:
        kernel.count("C18:inconsistent-verdicts")
        for h, m, rv, av in mv:
            p0 = event_prob(m, ev, rv, av)
            if p0 > 0:
                kernel.violation("C18", "inconsistent-only-if-impossible",
                                 f"make_counterfactual_graph reports the event {gev.key(ev)} inconsistent, but it has "
                                 f"probability {p0} in a compatible model (seed {h[:12]}, cards {m.card}, ref {rv}, alt {av}); "
                                 f"graph {case['graph']}", case=case,
                                 witness={"p": str(p0), "model_seed": h, "ref": rv, "alt": av})
                return
        kernel.count("C18:inconsistent-and-zero-in-all-sampled-models")
        return
    new_ev = gev.from_event(new_event)
    if any(c[2] is None for c in new_ev):
        kernel.violation("C18", "relabelled-event", f"relabelled event has a variable without value: {new_ev}", case=case)
        return
    # structural clauses
    g2 = RG.from_nx(cf_graph)
    keys = set(new_event)
    problems = []
    if not g2.is_acyclic():
        problems.append("the counterfactual graph is cyclic")
    if not keys <= set(g2.V):
        problems.append(f"relabelled event variable(s) {sorted(map(str, keys - set(g2.V)))} are not nodes of the graph")
    else:
        an = g2.ancestors_inclusive(keys)
        if an != set(g2.V):
            problems.append(f"nodes {sorted(map(str, set(g2.V) - an))} are not ancestors of the relabelled event")
    if set(cf_graph.directed.nodes()) != set(cf_graph.undirected.nodes()):
        problems.append("directed and undirected components have different node sets")
    kernel.count("C18:structure-checked")
    if problems:
        kernel.violation("C18", "graph-structure", f"make_counterfactual_graph({case['graph']}, {gev.key(ev)}): " +
                         "; ".join(problems) + f"; returned nodes {sorted(map(str, g2.V))}", case=case)
    if not valid_event(ref, new_ev):
        kernel.violation("C18", "relabelled-event", f"relabelled event {new_ev} mentions variables outside the graph", case=case)
        return
    for h, m, rv, av in mv:
        p0 = event_prob(m, ev, rv, av)
        p1 = event_prob(m, new_ev, rv, av)
        kernel.count("C18:probabilities-compared")
        if p0 != p1:
            kernel.violation("C18", "probability-preserved",
                             f"event {gev.key(ev)} has probability {p0} but the relabelled event {gev.key(new_ev)} has {p1} "
                             f"(model seed {h[:12]}, cards {m.card}, ref {rv}, alt {av}); graph {case['graph']}",
                             case=case, witness={"p_event": str(p0), "p_relabelled": str(p1), "model_seed": h})
            return
        if p0 > 0:
            kernel.count("C18:positive-probability-cases")
    # what the GRAPH says about the relabelled event: parts of the event in different connected components, and event
    # variables that are m-separated in it, are independent in every compatible model (ID* multiplies over them)
    if problems or not g2.is_acyclic():
        return
    conj = {k: gev.from_event({k: v})[0] for k, v in new_event.items()}
    comp_of = {}
    for i, comp in enumerate(_components(g2)):
        for v in comp:
            comp_of[v] = i
    groups: dict = {}
    for k in conj:
        groups.setdefault(comp_of[k], []).append(conj[k])
    keys_l = sorted(conj, key=str)
    sep_pairs = [(a, b) for i, a in enumerate(keys_l) for b in keys_l[i + 1:] if g2.m_separated(a, b, set())]
    kernel.count("C18:graph-claims-checked")
    for h, m, rv, av in mv:
        if len(groups) > 1:
            kernel.count("C18:component-factorisations-compared")
            prod = 1
            for grp in groups.values():
                prod *= event_prob(m, grp, rv, av)
            p1 = event_prob(m, new_ev, rv, av)
            if prod != p1:
                kernel.violation("C18", "graph-describes-event",
                                 f"the counterfactual graph of {gev.key(ev)} puts the relabelled event {gev.key(new_ev)} into "
                                 f"{len(groups)} connected components {[gev.key(g_) for g_ in groups.values()]}, but "
                                 f"P(event') = {p1} while the product over the components is {prod} (model seed {h[:12]}, "
                                 f"cards {m.card}); graph {case['graph']}; returned edges D={sorted(f'{u}->{v}' for u, v in g2.D)} "
                                 f"B={sorted('<->'.join(sorted(map(str, e))) for e in g2.B)}", case=case)
                return
        for a, b in sep_pairs:
            kernel.count("C18:separated-pairs-compared")
            for sa in (False, True):
                for sb in (False, True):
                    ca, cb = [conj[a][0], conj[a][1], sa], [conj[b][0], conj[b][1], sb]
                    if event_prob(m, [ca, cb], rv, av) != event_prob(m, [ca], rv, av) * event_prob(m, [cb], rv, av):
                        kernel.violation("C18", "graph-describes-event",
                                         f"{a} and {b} are m-separated in the counterfactual graph of {gev.key(ev)} but "
                                         f"dependent in a compatible model (seed {h[:12]}, cards {m.card}); graph "
                                         f"{case['graph']}; returned edges D={sorted(f'{u}->{v}' for u, v in g2.D)} "
                                         f"B={sorted('<->'.join(sorted(map(str, e))) for e in g2.B)}", case=case)
                        return


def _components(g: RG):
    adj = {v: set() for v in g.V}
    for u, v in g.D:
        adj[u].add(v)
        adj[v].add(u)
    for e in g.B:
        e = list(e)
        if len(e) == 2:
            adj[e[0]].add(e[1])
            adj[e[1]].add(e[0])
    seen, out = set(), []
    for v in g.V:
        if v in seen:
            continue
        comp, st = {v}, [v]
        while st:
            x = st.pop()
            for y in adj[x]:
                if y not in comp:
                    comp.add(y)
                    st.append(y)
        seen |= comp
        out.append(comp)
    return out


def _raise_cg(snap, exc, graph, event):
    kernel.count(f"C18:raised-{type(exc).__name__}")
    if snap is None:
        return
    ref, ev = snap["ref"], snap["ev"]
    if not ev or not valid_event(ref, ev):
        kernel.count("C18:invalid-input-skipped")
        return
    if any(c[0] in {i for i, _ in c[1]} for c in ev):
        # a self-intervened EVENT variable (X_x = x): ID* removes such conjuncts before it builds the graph, the
        # construction on its own loses the node (unchanged tree); outside what the statement lists, counted only
        kernel.count("C18:raised-with-a-self-intervened-event-variable")
        return
    case = {"graph": gd_of(ref), "event": ev}
    if mon_id.cards_hint():
        case["cards"] = mon_id.cards_hint()
    kernel.violation("C18", "produces-a-graph", f"make_counterfactual_graph raised {type(exc).__name__}: {exc} for the "
                     f"event {gev.key(ev)} (no self-intervened event variable): nothing was produced for a conjunction "
                     f"the statement quantifies over", case=case)


def install_cg():
    import y0.algorithm.identify.cg as cg

    kernel.install_function(cg, "make_counterfactual_graph", label="make_counterfactual_graph", pre=_pre_cg, post=_post_cg,
                            on_raise=_raise_cg)
    kernel.install_function(cg, "merge_pw", label="merge_pw")


# ---------------------------------------------------------------------------------------
# O5: congruence closure — proves a counterfactual conjunction impossible in EVERY functional model


def impossible_in_every_model(ref: RG, ev) -> tuple[bool, list]:
    """Closure over the unknowns v[V, world]: intervened variables and event values are constants
    (REF_V != ALT_V), and 'same mechanism, same noise, equal parent values => equal value'.  The
    event is impossible in every model iff two different constants of one variable end up in one
    class; returns (impossible, derivation)."""
    names = gd_of(ref)
    order = RG.make(names["nodes"], [tuple(e) for e in names["di"]], []).topological_order()
    pm = RG.make(names["nodes"], [tuple(e) for e in names["di"]], []).parents_map()
    worlds = sorted({tuple(sorted((i, bool(s)) for i, s in w)) for _, w, _ in ev} | {()})
    parent: dict = {}

    def find(x):
        parent.setdefault(x, x)
        while parent[x] != x:
            parent[x] = parent[parent[x]]
            x = parent[x]
        return x

    derivation = []

    def union(a, b, why):
        ra, rb = find(a), find(b)
        if ra != rb:
            parent[ra] = rb
            derivation.append(why)
            return True
        return False

    def const(v, star):
        return ("const", v, bool(star))

    for w in worlds:
        for i, s in w:
            union(("v", i, w), const(i, s), f"{i} is set to {'+' if s else '-'} in world {w}")
    for n, w, val in ev:
        w = tuple(sorted((i, bool(s)) for i, s in w))
        union(("v", n, w), const(n, val), f"event: {n} in world {w} = {'+' if val else '-'}")
    changed = True
    while changed:
        changed = False
        for v in order:
            for w1, w2 in itt.combinations(worlds, 2):
                if v in dict(w1) or v in dict(w2):
                    continue
                if all(find(("v", p, w1)) == find(("v", p, w2)) for p in pm[v]):
                    if union(("v", v, w1), ("v", v, w2), f"{v} has equal parent values in worlds {w1} and {w2}"):
                        changed = True
    def same(name, w1, w2):
        """Are V in world w1 and V in world w2 forced equal?  None when a world is outside the closure."""
        w1 = tuple(sorted((i, bool(s)) for i, s in w1))
        w2 = tuple(sorted((i, bool(s)) for i, s in w2))
        if w1 not in worlds or w2 not in worlds:
            return None
        return find(("v", name, w1)) == find(("v", name, w2))

    impossible_in_every_model.last_same = same
    for v in names["nodes"]:
        if find(const(v, True)) == find(const(v, False)):
            return True, derivation
    return False, derivation


# ---------------------------------------------------------------------------------------
# C07 / C08 semantics


def readings(ev_all):
    """Candidate event-value environments: a base name the event mentions with one value gets it;
    a name with two different values is ambiguous -> every choice is a reading (DESIGN §3)."""
    vals: dict = {}
    for n, _, v in ev_all:
        vals.setdefault(n, set()).add(bool(v))
    amb = sorted(n for n, s in vals.items() if len(s) > 1)
    fixed = {n: next(iter(s)) for n, s in vals.items() if len(s) == 1}
    out = []
    for combo in itt.product([False, True], repeat=min(len(amb), 3)):
        r = dict(fixed)
        r.update(zip(amb, combo))
        for n in amb[3:]:
            r[n] = False
        out.append(r)
    return out, amb


def cf_estimand_ok(label, expr, ref: RG, outcomes_ev, conditions_ev) -> bool:
    """Silent version of judge_cf_estimand: would the expression be accepted?"""
    n0 = len(kernel.LOG.violations)
    saved = dict(kernel.LOG.counters)
    saved_facts = dict(FACTS)
    judge_cf_estimand("_probe", label, expr, ref, outcomes_ev, conditions_ev, {}, lambda kind: None)
    ok = len(kernel.LOG.violations) == n0
    del kernel.LOG.violations[n0:]
    kernel.LOG.counters.clear()
    kernel.LOG.counters.update(saved)
    FACTS.clear()
    FACTS.update(saved_facts)
    return ok


def judge_cf_estimand(prop, label, expr, ref: RG, outcomes_ev, conditions_ev, case, mech_fn):
    """⟦expr⟧ (event values for outcome variables, literal subscripts, Sum-bound override, universal
    reading of unvalued free variables) must equal P(out ∧ cond) / P(cond) in every sampled model."""
    from y0.dsl import Zero

    ev_all = outcomes_ev + conditions_ev
    names = {v.name for v in ref.V}
    tag = f"{label}|{sorted(map(str, ref.D))}|{sorted(sorted(map(str, e)) for e in ref.B)}"
    mv = models_with_values(ref, tag)
    if not mv:
        return
    if isinstance(expr, Zero):
        kernel.count(f"{prop}:zero-answers")
        for h, m, rv, av in mv:
            p = event_prob(m, ev_all, rv, av)
            if p > 0:
                kernel.violation(prop, "zero-only-if-impossible",
                                 f"{label} returned Zero for {gev.key(outcomes_ev)}" +
                                 (f" given {gev.key(conditions_ev)}" if conditions_ev else "") +
                                 f" but the joint event has probability {p} in a compatible model (seed {h[:12]}, cards "
                                 f"{m.card}, ref {rv}, alt {av}); graph {gd_of(ref)}",
                                 case=case, mech=mech_fn("zero"), witness={"p": str(p), "model_seed": h})
                return
        kernel.count(f"{prop}:zero-answers-consistent-with-models")
        return
    try:
        fv = free_variables(expr)
    except TypeError as e:
        kernel.violation(prop, "estimand-type", f"{label} returned an expression with an uninterpretable node: {e}", case=case)
        return
    if fv - names:
        kernel.violation(prop, "free-variable-outside-graph", f"{label} estimand {expr} mentions {sorted(fv - names)}",
                         case=case, mech=mech_fn("value"))
        return
    rds, amb = readings(ev_all)
    if amb:
        kernel.count(f"{prop}:ambiguous-event-value-cases")
    failures = []
    ok_reading = None
    npts = 0
    from .denote import subscript_names
    from .mon_dsl import bound_names

    # a subscript whose name is also bound by an enclosing Sum: either the summed value (textbook
    # Σ_z P_z(y) P_x(z)) or the literal value of the event -- both readings are tried (DESIGN §3)
    captured = bool(subscript_names(expr) & bound_names(expr))
    # the estimand sums over a name that is also a literal subscript of the event: its text is ambiguous
    FACTS["captured_event_subscript"] = bool(bound_names(expr) & {i for _, w, _ in ev_all for i, _ in w})
    if captured:
        kernel.count(f"{prop}:sum-bound-subscript-cases")
    # (a reading that ignores the binding altogether was tried and dropped: it accepted Sum[Z](P[X,Z](Y)*P(Z)) as an
    # answer to P(Y_{x,z}=y | x), i.e. it was lenient enough to hide a seeded defect; an estimand in which one name
    # is an index in one factor and the event's fixed value in another is the listed capture finding)
    for r, sum_binds in [(r, True) for r in rds]:
        universal = sorted(fv - set(r))
        bad = None
        for h, m, rv, av in mv:
            pc = event_prob(m, conditions_ev, rv, av) if conditions_ev else Fraction(1)
            if pc == 0:
                kernel.count(f"{prop}:condition-has-probability-zero-in-model")
                continue
            want = event_prob(m, ev_all, rv, av) / pc
            den = Denoter(m, ref=rv, alt=av, literal_subscripts=True, sum_binds_subscripts=sum_binds)
            base_env = {n: (av[n] if s else rv[n]) for n, s in r.items()}
            for vals in itt.product(*[m.values(n) for n in universal]):
                env = dict(base_env)
                env.update(zip(universal, vals))
                try:
                    got = den.value(expr, env)
                except Undefined:
                    kernel.count(f"{prop}:undefined-denotation")
                    continue
                except Unbound as u:
                    bad = {"why": f"unvalued variable {u.name}"}
                    break
                except KeyError as e:
                    bad = {"why": f"estimand mentions unknown variable {e}"}
                    break
                npts += 1
                if got != want:
                    bad = {"assignment": env, "got": str(got), "want": str(want), "model_seed": h, "cards": m.card,
                           "ref": rv, "alt": av, "depends_on_unvalued": universal}
                    break
            if bad:
                break
        if bad is None:
            ok_reading = r
            break
        failures.append(bad)
    kernel.count(f"{prop}:estimands-evaluated")
    kernel.count(f"{prop}:points-compared", npts)
    if ok_reading is None:
        f0 = failures[0]
        kernel.violation(prop, "estimand-value",
                         f"{label} estimand {expr} for {gev.key(outcomes_ev)}" +
                         (f" given {gev.key(conditions_ev)}" if conditions_ev else "") +
                         f" is wrong under every reading: {f0}; graph {gd_of(ref)}",
                         case=case, witness=f0, mech=mech_fn("value"))
    else:
        kernel.count(f"{prop}:estimands-correct")


# ---- ID* ---------------------------------------------------------------------------------

_stack: list = []
FACTS: dict = {}


def _reset_facts():
    FACTS.clear()
    FACTS.update(pillow_plus=False, same_base_district=False, line9_extra=False, lines=set())


def observed_equals_other_worlds_setting(ev, ref=None) -> bool:
    """Some variable is observed (in a world that does not set it) at exactly the value another world of the
    event sets it to: Lemma 24 would merge its children across the two worlds, y0's make_counterfactual_graph
    does not (an intervened copy never 'has the same confounders' as the observed one)."""
    settings = {(i, bool(s)) for _, w, _ in ev for i, s in w}
    worlds = {tuple(map(tuple, w)) for _, w, _ in ev} | {()}
    confounded = {x.name for e in ref.B for x in e} if ref is not None else None
    for n, w, v in ev:
        if n not in {i for i, _ in w} and (n, bool(v)) in settings:
            # the merge is only missed when the observed copy has bidirected neighbours that the intervened copy
            # lacks: the variable is confounded in G, or it is stitched to its copies in two or more other worlds
            if confounded is None or n in confounded:
                return True
            # ... or some other world changes n itself (sets a proper ancestor of n without setting n), so that the
            # observed copy stays stitched to a copy it cannot be merged with
            anc = {a.name for a in ref.ancestors_inclusive({x for x in ref.V if x.name == n})} - {n}
            for w2 in worlds:
                names2 = {i for i, _ in w2}
                if n not in names2 and names2 & anc:
                    return True
    return False


def _set_closure(ref, ev):
    FACTS["same_fn"] = None
    try:
        if valid_event(ref, ev):
            impossible_in_every_model(ref, ev)
            FACTS["same_fn"] = impossible_in_every_model.last_same
    except Exception:  # noqa: BLE001
        pass


def classify_idstar(kind):
    if FACTS.get("same_base_district"):
        return "idstar.same-base-in-district"
    if FACTS.get("pillow_plus"):
        return "idstar.pillow-value-lost"
    if FACTS.get("observed_equals_setting"):
        return "idstar.unmerged-observed-equals-setting"
    if FACTS.get("captured_event_subscript") and kind == "value":
        return "idstar.sum-variable-captures-event-subscript"
    return None


def _distinct_same_base_pair(nodes) -> bool:
    """Is there a pair of nodes with one base that the top-level event does NOT force to be the same random
    variable?  (Two copies that are forced equal should have been merged by make_counterfactual_graph; their
    collision is then not the listed key-collision mechanism but a missed merge.)"""
    same = FACTS.get("same_fn")
    by_base: dict = {}
    for n in nodes:
        by_base.setdefault(n.name, []).append(sorted([i.name, bool(i.star)] for i in getattr(n, "interventions", ()) or ()))
    for name, ws in by_base.items():
        for w1, w2 in itt.combinations(ws, 2):
            verdict = same(name, w1, w2) if same else None
            if verdict is None or verdict is False:
                return True
    return False


def _post_events_of_district(snap, res, graph, district, event):
    from y0.algorithm.identify.cg import value_of_self_intervention

    FACTS.setdefault("lines", set()).add("line6")
    bases = [n.get_base() for n in district]
    if len(bases) != len(set(bases)) and _distinct_same_base_pair(district):
        FACTS["same_base_district"] = True
    pillow = graph.get_markov_pillow(district)
    if {p.get_base() for p in pillow} & set(bases):
        # the observed X sits in the district while the intervened copy X_x is a parent of another member:
        # every member (X included) is then subscripted with x
        FACTS["same_base_district"] = True
    for p in pillow:
        star = None
        if p in event:
            star = event[p].star
        else:
            v = value_of_self_intervention(p)
            if v is not None:
                star = v.star
        if star:
            FACTS["pillow_plus"] = True


def _post_conflicts(snap, res, cf_graph, event):
    from y0.algorithm.identify.cg import is_not_self_intervened

    if res:
        FACTS.setdefault("lines", set()).add("line8")
        return
    FACTS.setdefault("lines", set()).add("line9")
    live_nodes = [n for n in cf_graph.nodes() if is_not_self_intervened(n)]
    live = [n.get_base() for n in live_nodes]
    if len(live) != len(set(live)) and _distinct_same_base_pair(live_nodes):
        FACTS["same_base_district"] = True  # line 9 builds one joint over the *bases*: Y_x and Y collapse
    ev_bases = {k.get_base() for k in event}
    for n in cf_graph.nodes():
        if n.get_base() not in ev_bases and is_not_self_intervened(n):
            FACTS["line9_extra"] = True


def _pre_idstar(graph, event, *, _number_recursions=0):
    top = not _stack
    _stack.append("id_star")
    if not top:
        return None
    _reset_facts()
    ev = gev.from_event(event)
    ref0 = RG.from_nx(graph)
    _set_closure(ref0, ev)
    FACTS["observed_equals_setting"] = observed_equals_other_worlds_setting(ev, ref0)
    return {"ref": ref0, "ev": ev, "fz": freeze_graph(graph), "efz": freeze_value(event)}


def _finish_idstar(snap, res, exc, graph, event):
    from y0.algorithm.identify.utils import Unidentifiable
    from y0.dsl import Expression

    ref, ev = snap["ref"], snap["ev"]
    case = {"graph": gd_of(ref), "event": ev, "lines": sorted(FACTS.get("lines", ()))}
    if mon_id.cards_hint():
        case["cards"] = mon_id.cards_hint()
    if not ev:
        return
    if not valid_event(ref, ev):
        kernel.count("C07:invalid-input-skipped")
        return
    if exc is not None:
        if isinstance(exc, Unidentifiable):
            kernel.count("C07:refusals")
            return
        kernel.violation("C07", "total", f"id_star raised {type(exc).__name__}: {exc} for {gev.key(ev)} on {case['graph']}",
                         case=case, mech=classify_idstar("raise"))
        return
    if not isinstance(res, Expression):
        kernel.violation("C07", "total", f"id_star returned {type(res).__name__}", case=case)
        return
    judge_cf_estimand("C07", "id_star", res, ref, ev, [], case, classify_idstar)
    bad = mixed_world_terms(res)
    kernel.count("C06:idstar-estimands-walked")
    if bad:
        kernel.violation("C06", "vocabulary-idstar", f"id_star estimand {res} has term(s) mixing worlds: {bad[:3]}", case=case)


def mixed_world_terms(expr):
    bad = []
    try:
        for leaf in leaves(expr):
            sets = {frozenset(getattr(v, "interventions", ()) or ()) for v in itt.chain(leaf.children, leaf.parents)}
            if len(sets) > 1:
                bad.append(str(leaf))
    except TypeError:
        pass
    return bad


def _post_idstar(snap, res, graph, event, *, _number_recursions=0):
    _stack.pop()
    if snap is not None and "idc" not in _stack:
        _finish_idstar(snap, res, None, graph, event)


def _raise_idstar(snap, exc, graph, event, *, _number_recursions=0):
    _stack.pop()
    if snap is not None and "idc" not in _stack:
        _finish_idstar(snap, None, exc, graph, event)


def install_idstar():
    import importlib

    ids = importlib.import_module("y0.algorithm.identify.id_star")
    install_cg()
    kernel.install_function(ids, "get_events_of_district", label="get_events_of_district", post=_post_events_of_district)
    kernel.install_function(ids, "get_conflicts", label="get_conflicts", post=_post_conflicts)
    kernel.install_function(ids, "id_star", label="id_star", pre=_pre_idstar, post=_post_idstar, on_raise=_raise_idstar)


# ---- IDC* --------------------------------------------------------------------------------


def classify_idcstar(kind):
    if kind == "raise" and FACTS.get("reflexive_event_variable") and FACTS.get("raised") in ("NodeNotFound", "NetworkXError"):
        return "idcstar.reflexive-event-variable-crash"
    m = classify_idstar(kind)
    if m:
        return m.replace("idstar.", "idcstar.inherits-idstar.")
    if FACTS.get("exchange_with_plus_condition"):
        return "idcstar.condition-value-lost"
    if FACTS.get("conditional_rebinds"):
        return "idcstar.conditional-rebinds-bound-variable"
    if FACTS.get("shared_base_outcome_condition") and any(FACTS.get("rule2", [])):
        # (the listed failure needs a rule-2 exchange of the shared variable: the conditions run empty and the
        # un-normalised ID* estimand is returned)
        return "idcstar.outcome-and-condition-share-a-variable"
    if FACTS.get("exchange_with_other_conditions"):
        return "idcstar.rule2-ignores-other-conditions"
    return None


def _post_rule2(snap, res, cf_graph, outcomes, condition):
    FACTS.setdefault("rule2", []).append(bool(res))
    if res and FACTS.get("plus_condition"):
        FACTS["exchange_with_plus_condition"] = True
    if res and FACTS.get("n_conditions", 0) >= 2:
        FACTS["exchange_with_other_conditions"] = True


def _post_conditional_flag(snap, res, self, ranges):
    from .mon_dsl import _range_names, bound_names

    if "idc" not in _stack:
        return
    try:
        rn = _range_names(ranges)
        over = {c.name for c in self._iter_variables()} - rn
        if over & bound_names(self):
            FACTS["conditional_rebinds"] = True
            FACTS["conditional_operand"] = (self, set(rn))
        FACTS["conditional_called"] = True
    except Exception:  # noqa: BLE001
        pass


def _pre_idcstar(graph, outcomes, conditions, *, _number_recursions=0):
    top = not _stack
    _stack.append("idc")
    if not top:
        return None
    _reset_facts()
    out, cond = gev.from_event(outcomes), gev.from_event(conditions)
    FACTS["observed_equals_setting"] = observed_equals_other_worlds_setting(out + cond, RG.from_nx(graph))
    _set_closure(RG.from_nx(graph), out + cond)
    FACTS["plus_condition"] = any(c[2] for c in cond)
    FACTS["n_conditions"] = len(cond)
    FACTS["reflexive_event_variable"] = any(c[0] in {i for i, _ in c[1]} for c in out + cond)
    FACTS["shared_base_outcome_condition"] = bool({c[0] for c in out} & {c[0] for c in cond})
    return {"ref": RG.from_nx(graph), "out": out, "cond": cond, "fz": freeze_graph(graph)}


def _finish_idcstar(snap, res, exc):
    from y0.algorithm.identify.utils import Unidentifiable
    from y0.dsl import Expression

    ref, out, cond = snap["ref"], snap["out"], snap["cond"]
    case = {"graph": gd_of(ref), "outcomes": out, "conditions": cond, "lines": sorted(FACTS.get("lines", ()))}
    if mon_id.cards_hint():
        case["cards"] = mon_id.cards_hint()
    if not out or not cond or not valid_event(ref, out + cond):
        kernel.count("C08:invalid-input-skipped")
        return
    keys = [(c[0], tuple(map(tuple, c[1]))) for c in out + cond]
    if len(keys) != len(set(keys)):
        kernel.count("C08:overlapping-outcome-and-condition-skipped")
        return
    impossible, derivation = impossible_in_every_model(ref, cond)
    if impossible:
        kernel.count("C08:conditions-proved-impossible")
        tag = f"idc|{sorted(map(str, ref.D))}|{sorted(sorted(map(str, e)) for e in ref.B)}"
        for h, m, rv, av in models_with_values(ref, tag):
            if event_prob(m, cond, rv, av) != 0:
                kernel.monitor_error("c08.oracle-suspect", RuntimeError(f"closure says impossible, model says possible: {case}"))
                return
    if exc is not None:
        if isinstance(exc, Unidentifiable):
            kernel.count("C08:refusals")
            return
        if isinstance(exc, ValueError):
            kernel.count("C08:rejections")
            kernel.count("C08:rejections-of-impossible-conditions" if impossible else "C08:rejections-of-possible-conditions")
            return
        FACTS["raised"] = type(exc).__name__
        kernel.violation("C08", "total", f"idc_star raised {type(exc).__name__}: {exc} for {gev.key(out)} given "
                         f"{gev.key(cond)} on {case['graph']}", case=case, mech=classify_idcstar("raise"))
        return
    if not isinstance(res, Expression):
        kernel.violation("C08", "total", f"idc_star returned {type(res).__name__}", case=case)
        return
    if impossible:
        kernel.violation("C08", "rejects-impossible-condition",
                         f"idc_star answered {res} for {gev.key(out)} given {gev.key(cond)}, although the condition is "
                         f"impossible in every model: {derivation[-3:]}; graph {case['graph']}", case=case,
                         mech=classify_idcstar("answer-impossible"))
        return
    if FACTS.get("conditional_rebinds") and FACTS.get("conditional_operand") is not None:
        # the listed re-binding mechanism explains a wrong answer only if the SAME numerator, normalised over its free
        # variables alone, is right; otherwise something else is wrong as well and the key must not swallow it
        from y0.dsl import Fraction as YF
        from y0.dsl import Sum, Variable

        operand, keep = FACTS["conditional_operand"]
        try:
            over = sorted(free_variables(operand) - keep)
            den = Sum.safe(operand, [Variable(n) for n in over]) if over else operand
            repaired = YF(operand, den)
            if not cf_estimand_ok("idc_star", repaired, ref, out, cond):
                FACTS["conditional_rebinds"] = False
                kernel.count("C08:rebinding-does-not-explain-the-error")
        except Exception:  # noqa: BLE001
            pass
    judge_cf_estimand("C08", "idc_star", res, ref, out, cond, case, classify_idcstar)
    bad = mixed_world_terms(res)
    kernel.count("C06:idcstar-estimands-walked")
    if bad:
        kernel.violation("C06", "vocabulary-idcstar", f"idc_star estimand {res} has term(s) mixing worlds: {bad[:3]}", case=case)


def _post_idcstar(snap, res, graph, outcomes, conditions, *, _number_recursions=0):
    _stack.pop()
    if snap is not None:
        _finish_idcstar(snap, res, None)


def _raise_idcstar(snap, exc, graph, outcomes, conditions, *, _number_recursions=0):
    _stack.pop()
    if snap is not None:
        _finish_idcstar(snap, None, exc)


def install_idcstar():
    import importlib

    import y0.dsl as d

    install_idstar()
    mod = importlib.import_module("y0.algorithm.identify.idc_star")
    kernel.install_function(mod, "cf_rule_2_of_do_calculus_applies", label="cf_rule_2", post=_post_rule2)
    kernel.install_function(mod, "idc_star", label="idc_star", pre=_pre_idcstar, post=_post_idcstar, on_raise=_raise_idcstar)
    kernel.install_method(d.Expression, "conditional", label="Expression.conditional", post=_post_conditional_flag)
    kernel.install_method(d.Probability, "conditional", label="Probability.conditional", post=_post_conditional_flag)
