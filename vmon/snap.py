"""Deep structural snapshots of caller-owned objects (receiver-unchanged monitors)."""

from __future__ import annotations


def _k(x):
    return (type(x).__name__, str(x))


def freeze_graph(g):
    """Everything observable about an NxMixedGraph: node insertion order of both component
    graphs, node/edge attribute dicts, adjacency order, graph-level attributes."""
    d, u = g.directed, g.undirected
    return (
        tuple((n, tuple(sorted((str(k), repr(v)) for k, v in a.items()))) for n, a in d.nodes(data=True)),
        tuple((n, tuple(sorted((str(k), repr(v)) for k, v in a.items()))) for n, a in u.nodes(data=True)),
        tuple((a, b, tuple(sorted((str(k), repr(v)) for k, v in at.items()))) for a, b, at in d.edges(data=True)),
        tuple((a, b, tuple(sorted((str(k), repr(v)) for k, v in at.items()))) for a, b, at in u.edges(data=True)),
        tuple(sorted((str(k), repr(v)) for k, v in d.graph.items())),
        tuple(sorted((str(k), repr(v)) for k, v in u.graph.items())),
    )


def freeze_query(q):
    return (
        tuple(sorted(map(_k, q.outcomes))),
        tuple(sorted(map(_k, q.treatments))),
        tuple(sorted(map(_k, q.conditions))),
    )


def freeze_value(x):
    """Generic freeze for sets / dicts / lists of DSL objects."""
    if isinstance(x, dict):
        return ("dict", tuple((freeze_value(k), freeze_value(v)) for k, v in x.items()))
    if isinstance(x, (set, frozenset)):
        return (type(x).__name__, tuple(sorted((freeze_value(i) for i in x), key=repr)))
    if isinstance(x, (list, tuple)):
        return (type(x).__name__, tuple(freeze_value(i) for i in x))
    return (type(x).__name__, repr(x))
