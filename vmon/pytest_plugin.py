"""pytest plugin: run the repository's own test-suite as a *workload* with the monitors of one
property installed (DESIGN 2.4).  The plugin never changes a test's outcome; at the end of the
session it writes the kernel's log in the same format a shard writes.

  VMON_SUITE_PROP=C10 VMON_SUITE_OUT=/path/out.json pytest -p vmon.pytest_plugin <repo>/tests
"""

from __future__ import annotations

import importlib
import json
import os
import time

_T0 = time.time()


def pytest_configure(config):
    from . import kernel

    prop = os.environ["VMON_SUITE_PROP"]
    mod = importlib.import_module(f"vmon.props.{prop.lower()}")
    kernel.connect_hooks()
    mod.install_for_suite()
    kernel.LOG.reset_case({"workload": "repository test-suite"})


def pytest_runtest_setup(item):
    from . import kernel

    kernel.LOG.reset_case({"workload": "repository test-suite", "test": item.nodeid})


def pytest_sessionfinish(session, exitstatus):
    from collections import Counter

    from . import kernel
    from .runner import load_findings

    prop = os.environ["VMON_SUITE_PROP"]
    found, _ = load_findings(prop)
    known: Counter = Counter()
    keep = []
    for v in kernel.LOG.violations:
        if v["property"] == prop and v.get("mech") in found:
            known[v["mech"]] += 1
        else:
            keep.append(v)
    out = {
        "status": "ok", "evaluations": 0, "nontrivial": [], "samples": [], "extras": {"suite_tests_run": session.testscollected},
        "known_hits": dict(known),
        "violations": [dict(v, hashseed=os.environ.get("PYTHONHASHSEED")) for v in keep[:200]],
        "n_violations": len(keep),
        "counters": {("suite:" + k if k.startswith("eval:") else k): v for k, v in kernel.LOG.counters.items()},
        "monitor_errors": kernel.LOG.monitor_errors, "wall_s": time.time() - _T0,
    }
    with open(os.environ["VMON_SUITE_OUT"], "w") as f:
        json.dump(out, f, default=str)
