"""Monitors for the DSL-level properties (C10 meaning, C11 normal form, C13 operator/helper
identities): post-conditions on the real canonicalize / canonical_expr_equal, on every
operator dunder and rewrite helper, judged by the free interpretation (vmon/freeinterp.py).

Every condition records and returns; nothing is raised into y0.
"""

from __future__ import annotations

import itertools as itt
from fractions import Fraction

from . import kernel
from .denote import Unbound, Undefined
from .freeinterp import (FreeInterp, all_names, compare, free_names, same_meaning, size, sum_cost,
                         unbound_subscripts)
from .gen.exprs import to_src

CONFIG = {"max_size": 40, "sample": 1.0, "idempotence": True}
_depth = {"canon": 0}


def _src(e):
    try:
        return to_src(e)
    except Exception:  # noqa: BLE001
        return repr(e)


def _case(**kw):
    out = {}
    for k, v in kw.items():
        if v is None or isinstance(v, (str, int, bool, list, dict)):
            out[k] = v
        else:
            out[k] = _src(v)
    return out


def _is_expr(x):
    from y0.dsl import Expression

    return isinstance(x, Expression)


def _small(*exprs):
    try:
        return sum(size(e) for e in exprs) <= CONFIG["max_size"]
    except Exception:  # noqa: BLE001
        return False


def _tag(*parts):
    return "|".join(_src(p) if _is_expr(p) else str(p) for p in parts)[:600]


# ---------------------------------------------------------------------------------------
# C10 / C11: canonicalize


def classify_canon(expr, res, second=None):
    """Mechanism keys of the listed C11 findings (DESIGN §5)."""
    return None


def check_canonical(expression, ordering, res, where):
    """C10 meaning + C11 idempotence for one canonicalisation."""
    import y0.mutate.canonicalize_expr as ce

    if not _is_expr(res):
        kernel.violation("C10", "canonical-type", f"{where} returned {type(res).__name__}",
                         case=_case(expr=expression, ordering=_ord(ordering)))
        return
    case = _case(expr=expression, ordering=_ord(ordering), shown=str(expression))
    if _small(expression, res):
        st, info = same_meaning(res, expression, _tag("C10", expression))
        kernel.count(f"C10:meaning-{st}")
        if st == "differ":
            kernel.violation(
                "C10", "meaning",
                f"{where}({expression}) = {res} denotes {info['got']} but the original denotes {info['want']} at "
                f"{info['assignment']} (free interpretation {info['interp_seed'][-24:]})",
                witness=info, case=case, mech=classify_meaning(expression, res))
    else:
        kernel.count("C10:too-large-skipped")
    if CONFIG["idempotence"]:
        orig = getattr(ce.canonicalize, "__vmon_original__", ce.canonicalize)
        try:
            again = orig(res, ordering)
        except Exception as e:  # noqa: BLE001
            # the ordering covered the input; a canonical form mentions no new variable
            kernel.violation("C11", "idempotent", f"re-canonicalising {res} (from {expression}) raised "
                             f"{type(e).__name__}: {e}", case=case)
            return
        kernel.count("C11:idempotence-checked")
        if again != res or str(again) != str(res):
            kernel.violation(
                "C11", "idempotent",
                f"canonicalize is not idempotent: {expression} -> {res} -> {again}",
                witness={"first": str(res), "second": str(again)}, case=case,
                mech=classify_idempotence(res, again))


def classify_meaning(expression, res):
    return None


def classify_idempotence(first, second):
    return None


def _ord(ordering):
    if ordering is None:
        return None
    return [getattr(v, "name", v) for v in ordering]


def _pre_canon(expression, ordering=None):
    _depth["canon"] += 1
    return {"top": _depth["canon"] == 1}


def _post_canon(snap, res, expression, ordering=None):
    _depth["canon"] -= 1
    if snap and snap["top"]:
        check_canonical(expression, list(ordering) if ordering is not None else None, res, "canonicalize")


def _raise_canon(snap, exc, expression, ordering=None):
    _depth["canon"] -= 1
    kernel.count(f"C10:canonicalize-raised-{type(exc).__name__}")


def _post_equal(snap, res, left, right):
    kernel.count(f"C10:canonical_expr_equal-{bool(res)}")
    if not res or not _small(left, right):
        return
    st, info = same_meaning(left, right, _tag("C10eq", left, right))
    kernel.count(f"C10:equal-claims-{st}")
    if st == "differ":
        kernel.violation(
            "C10", "declared-equal",
            f"canonical_expr_equal({left}, {right}) is True but the left denotes {info['got']} and the right "
            f"{info['want']} at {info['assignment']}", witness=info, case=_case(left=left, right=right))


# ---------------------------------------------------------------------------------------
# C13: operators and helpers


def _judge(op, res, ref_fn, names, operands, tagparts, alt_ref_fn=None, mech=None):
    """⟦res⟧ must equal ref_fn(interp, env) (or alt_ref_fn, where the statement leaves a reading open)."""
    if not _is_expr(res):
        kernel.violation("C13", op, f"{op} returned {type(res).__name__}", case=_case(**operands))
        return
    if not _small(res, *[v for v in operands.values() if _is_expr(v)]):
        kernel.count("C13:too-large-skipped")
        return
    names = set(names) | free_names(res)
    if len(names) > 8:
        kernel.count("C13:too-many-names-skipped")
        return
    tag = _tag("C13", op, *tagparts)
    try:
        st, info = compare(res, ref_fn, names, tag)
        if st == "differ" and alt_ref_fn is not None:
            st2, info2 = compare(res, alt_ref_fn, names, tag)
            if st2 == "equal":
                st, info = st2, info2
                kernel.count(f"C13:{op}:accepted-under-alternative-reading")
    except Unbound as u:
        kernel.count(f"C13:{op}:unbound-skipped")
        return
    kernel.count(f"C13:{op}:{st}")
    if st == "differ":
        shown = {k: str(v) for k, v in operands.items()}
        kernel.violation("C13", op, f"{op} on {shown} returned {res}, which denotes {info['got']} where the "
                         f"mathematical operation gives {info['want']} at {info['assignment']}",
                         witness=info, case=_case(op=op, **operands), mech=mech)


def classify_op(op, operands, res):
    return None


def _type_pair(a, b):
    return f"{type(a).__name__}x{type(b).__name__}"


def _post_mul(snap, res, self, other):
    if not _is_expr(other):
        return
    kernel.count(f"C13:mul:{_type_pair(self, other)}")
    _judge("mul", res, lambda I, env: I.value(self, env) * I.value(other, env),
           free_names(self) | free_names(other), {"a": self, "b": other}, (self, other))


def _post_rmul(snap, res, self, other):
    if not _is_expr(other):
        return
    kernel.count(f"C13:mul:{_type_pair(other, self)}")
    _judge("mul", res, lambda I, env: I.value(self, env) * I.value(other, env),
           free_names(self) | free_names(other), {"a": other, "b": self}, (other, self))


def _div_ref(a, b):
    def ref(I, env):
        d = I.value(b, env)
        if d == 0:
            raise Undefined("zero divisor")
        return I.value(a, env) / d

    return ref


def _post_div(snap, res, self, other):
    if not _is_expr(other):
        return
    kernel.count(f"C13:div:{_type_pair(self, other)}")
    _judge("div", res, _div_ref(self, other), free_names(self) | free_names(other), {"a": self, "b": other},
           (self, other))


def _range_names(ranges):
    from y0.dsl import Variable

    if isinstance(ranges, str):
        return {ranges}
    if isinstance(ranges, Variable):
        return {ranges.name}
    if not isinstance(ranges, (list, tuple, set, frozenset)):
        # a generator / iterator has been consumed by the call itself and cannot be read again
        raise TypeError("one-shot iterable")
    return {r if isinstance(r, str) else r.name for r in ranges}


def _sum_ref(expr, names):
    names = sorted(names)

    def ref(I, env):
        total = Fraction(0)
        env2 = dict(env)
        bound = frozenset(names)
        for vals in itt.product(*[I.values(n) for n in names]):
            env2.update(zip(names, vals))
            total += I.value(expr, env2, bound)
        return total

    return ref


def _ill_scoped(expr, rn, op) -> bool:
    """Summing over a name the operand mentions only with a value mark (a constant) is not a
    well-scoped request (DESIGN §3): counted, not judged."""
    if rn & (valued_names(expr) - free_names(expr)):
        kernel.count(f"C13:{op}:valued-variable-range-skipped")
        return True
    from .denote import subscript_names

    if rn & subscript_names(expr) & _own_names(expr):
        # the name is summed over as a variable of the term AND is a subscript value inside it (Sum[W] P(W, Z @ -W)): the
        # DSL has one binder for both roles; which of them a request means is not defined - counted, not judged
        kernel.count(f"C13:{op}:range-name-in-two-roles-skipped")
        return True
    return False


def _post_marginalize(snap, res, self, ranges):
    try:
        rn = _range_names(ranges)
    except Exception:  # noqa: BLE001
        return
    if _ill_scoped(self, rn, "marginalize"):
        return
    _judge("marginalize", res, _sum_ref(self, rn), free_names(self) - rn, {"e": self, "ranges": sorted(rn)},
           (self, sorted(rn)))


def _cond_ref(expr, keep, include_subscripts):
    """e / Σ_{free(e) - keep} e ; optionally the unbound subscript names count as free variables."""
    fv = set(free_names(expr))
    if include_subscripts:
        fv |= unbound_subscripts(expr)
    over = sorted(fv - set(keep))
    den = _sum_ref(expr, over)

    def ref(I, env):
        d = den(I, env) if over else I.value(expr, env)
        if d == 0:
            raise Undefined("zero normaliser")
        return I.value(expr, env) / d

    return ref


def bound_names(expr) -> set:
    """Names bound by some Sum inside the expression."""
    from y0.dsl import Fraction as YF
    from y0.dsl import Product, Sum

    if isinstance(expr, Sum):
        return {r.name for r in expr.ranges} | bound_names(expr.expression)
    if isinstance(expr, Product):
        out = set()
        for e in expr.expressions:
            out |= bound_names(e)
        return out
    if isinstance(expr, YF):
        return bound_names(expr.numerator) | bound_names(expr.denominator)
    return set()


def valued_names(expr) -> set:
    """Names that occur with a value mark as a child/parent of some probability (a publicly built
    valued variable is an ``Intervention`` object, so the class cannot be used to tell)."""
    from .denote import leaves

    out = set()
    for leaf in leaves(expr):
        for v in itt.chain(leaf.children, leaf.parents):
            if v.star is not None:
                out.add(v.name)
    return out


def _own_names(expr) -> set:
    """Names of children/parents of the probabilities (subscripts excluded)."""
    from .denote import leaves

    return {v.name for leaf in leaves(expr) for v in itt.chain(leaf.children, leaf.parents)}


def _post_conditional(snap, res, self, ranges):
    from y0.dsl import Intervention, Probability

    try:
        rn = _range_names(ranges)
    except Exception:  # noqa: BLE001
        return
    # the set y0 normalises over (as the implementation documents it: "the other variables")
    if isinstance(self, Probability):
        over = _own_names(self) - rn
    else:
        over = {c.name for c in self._iter_variables()} - rn
    if over & (valued_names(self) - free_names(self)):
        # normalising over a name the operand mentions only with a value mark: the statement's "conditioning"
        # has no agreed meaning there (a valued variable is a constant) -- counted, not judged
        kernel.count("C13:conditional:valued-variable-operand-skipped")
        return
    mech = "conditional.rebinds-bound-variable" if over & bound_names(self) else None
    _judge("conditional", res, _cond_ref(self, rn, False), free_names(self), {"e": self, "ranges": sorted(rn)},
           (self, sorted(rn)), alt_ref_fn=_cond_ref(self, rn, True), mech=mech)


def _post_normalize_marginalize(snap, res, self, ranges):
    try:
        rn = _range_names(ranges)
    except Exception:  # noqa: BLE001
        return
    if _ill_scoped(self, rn, "normalize_marginalize"):
        return
    den = _sum_ref(self, rn)

    def ref(I, env):
        d = den(I, env)
        if d == 0:
            raise Undefined("zero normaliser")
        return I.value(self, env) / d

    _judge("normalize_marginalize", res, ref, free_names(self), {"e": self, "ranges": sorted(rn)}, (self, sorted(rn)))


def _post_simplify(snap, res, self):
    op = f"{type(self).__name__}.simplify"
    if op == "Sum.simplify" and _ill_scoped(self.expression, {r.name for r in self.ranges}, op):
        return
    _judge(op, res, lambda I, env: I.value(self, env), free_names(self), {"e": self}, (self,))


def _post_sum_safe(snap, res, cls, expression, ranges, *, simplify=False):
    if not _is_expr(expression):
        return
    try:
        rn = _range_names(ranges)
    except Exception:  # noqa: BLE001
        return
    if _ill_scoped(expression, rn, "Sum.safe"):
        return
    _judge("Sum.safe", res, _sum_ref(expression, rn), free_names(expression) - rn,
           {"e": expression, "ranges": sorted(rn), "simplify": bool(simplify)}, (expression, sorted(rn), simplify))


def _post_product_safe(snap, res, cls, expressions):
    if _is_expr(expressions):
        parts = [expressions]
    else:
        parts = snap
    if parts is None or not all(_is_expr(p) for p in parts):
        return

    def ref(I, env):
        out = Fraction(1)
        for p in parts:
            out *= I.value(p, env)
        return out

    names = set()
    for p in parts:
        names |= free_names(p)
    _judge("Product.safe", res, ref, names, {f"f{i}": p for i, p in enumerate(parts)}, tuple(parts))


def _pre_product_safe(cls, expressions):
    if _is_expr(expressions):
        return None
    return None  # generators are consumed by the call; the driver passes tuples (see install)


def _post_chain(snap, res, p, *, reorder=True, ordering=None):
    from y0.dsl import Probability, Product

    _judge("chain_expand", res, lambda I, env: I.value(p, env), free_names(p), {"p": p, "reorder": reorder},
           (p, reorder, _ord(ordering)))
    factors = res.expressions if isinstance(res, Product) else (res,)
    bad = [f for f in factors if not (isinstance(f, Probability) and len(f.children) == 1)]
    kernel.count("C13:chain_expand:factors-checked", len(factors))
    if bad:
        kernel.violation("C13", "chain_expand-single-child", f"chain_expand({p}) has factors that are not single-child "
                         f"conditionals: {bad}", case=_case(op="chain_expand", p=p, reorder=reorder,
                                                            ordering=_ord(ordering)))


def _post_same(op):
    def post(snap, res, e):
        if op == "bayes_expand" and any(c.star is not None for c in getattr(e, "children", ())):
            kernel.count("C13:bayes_expand:valued-child-skipped")  # would normalise over a constant
            return
        if op == "bayes_expand":
            # the expansion normalises with Sum[children]; a Sum binds a NAME, so when the name of an outcome occurs a
            # second time in the term in another role (the same variable in another world among the conditions, or as a
            # subscript), no expression of the DSL can sum over the outcome alone: such requests are counted, not judged
            kids = {c.name for c in getattr(e, "children", ())}
            others = set()
            for v_ in list(getattr(e, "children", ())) + list(getattr(e, "parents", ())):
                others |= {i.name for i in getattr(v_, "interventions", ()) or ()}
            for v_ in getattr(e, "parents", ()):
                if v_ not in getattr(e, "children", ()):
                    others.add(v_.name)
            seen_ = [c.name for c in getattr(e, "children", ())]
            if kids & others or len(seen_) != len(set(seen_)):
                kernel.count("C13:bayes_expand:outcome-name-in-a-second-role-skipped")
                return
        _judge(op, res, lambda I, env: I.value(e, env), free_names(e), {"e": e}, (e,))

    return post


def _on_raise(op):
    def on_raise(snap, exc, *a, **k):
        if isinstance(exc, ZeroDivisionError):
            return
        operands = {f"arg{i}": x for i, x in enumerate(a) if _is_expr(x)}
        kernel.count(f"C13:{op}:raised-{type(exc).__name__}")
        LOGGED.append({"op": op, "exc": f"{type(exc).__name__}: {exc}", "operands": {k: str(v) for k, v in operands.items()},
                       "src": {k: _src(v) for k, v in operands.items()},
                       "extra": {k2: (_ord(v2) if k2 == "ordering" else v2) for k2, v2 in k.items()}})

    return on_raise


LOGGED: list = []  # exceptions seen at operator/helper boundaries; the C13 driver decides which are 'defined operands'


def install_canon():
    import y0.mutate.canonicalize_expr as ce

    kernel.install_function(ce, "canonicalize", label="canonicalize", pre=_pre_canon, post=_post_canon,
                            on_raise=_raise_canon)
    kernel.install_function(ce, "canonical_expr_equal", label="canonical_expr_equal", post=_post_equal)


def install_ops():
    import y0.dsl as d
    import y0.mutate.chain as ch
    import y0.mutate.contract as ct

    for cls in (d.Probability, d.Product, d.Sum, d.Fraction, d.One, d.Zero, d.QFactor):
        if "__mul__" in cls.__dict__:
            kernel.install_method(cls, "__mul__", label=f"{cls.__name__}.__mul__", post=_post_mul, on_raise=_on_raise("mul"))
        if "__rmul__" in cls.__dict__:
            kernel.install_method(cls, "__rmul__", label=f"{cls.__name__}.__rmul__", post=_post_rmul,
                                  on_raise=_on_raise("mul"))
    for cls in (d.Expression, d.Fraction, d.Zero):
        kernel.install_method(cls, "__truediv__", label=f"{cls.__name__}.__truediv__", post=_post_div,
                              on_raise=_on_raise("div"))
    kernel.install_method(d.Expression, "marginalize", post=_post_marginalize, on_raise=_on_raise("marginalize"))
    kernel.install_method(d.Expression, "conditional", label="Expression.conditional", post=_post_conditional,
                          on_raise=_on_raise("conditional"))
    kernel.install_method(d.Probability, "conditional", label="Probability.conditional", post=_post_conditional,
                          on_raise=_on_raise("conditional"))
    kernel.install_method(d.Expression, "normalize_marginalize", post=_post_normalize_marginalize,
                          on_raise=_on_raise("normalize_marginalize"))
    kernel.install_method(d.Fraction, "simplify", label="Fraction.simplify", post=_post_simplify,
                          on_raise=_on_raise("Fraction.simplify"))
    kernel.install_method(d.Sum, "simplify", label="Sum.simplify", post=_post_simplify, on_raise=_on_raise("Sum.simplify"))
    kernel.install_method(d.Sum, "safe", label="Sum.safe", post=_post_sum_safe, on_raise=_on_raise("Sum.safe"))
    kernel.install_function(ch, "chain_expand", post=_post_chain, on_raise=_on_raise("chain_expand"))
    kernel.install_function(ch, "fraction_expand", post=_post_same("fraction_expand"), on_raise=_on_raise("fraction_expand"))
    kernel.install_function(ch, "bayes_expand", post=_post_same("bayes_expand"), on_raise=_on_raise("bayes_expand"))
    kernel.install_function(ct, "contract", post=_post_same("contract"), on_raise=_on_raise("contract"))
    kernel.install_function(ct, "recursive_contract", post=_post_same("recursive_contract"),
                            on_raise=_on_raise("recursive_contract"))
