"""./check CXX [--tier quick|thorough] [--replay FILE] — shard driver, verdicts, evidence.

Parent mode splits the case budget into shards, runs each shard in its own subprocess
(never multiprocessing.Pool: a dead child must not hang the check), aggregates the JSON the
shards emit, classifies violations against /verif/known_findings.txt, writes
evidence/<ID>.json and prints VIOLATION / KNOWN-FINDING / INCONCLUSIVE lines.

Exit codes: 0 held on what was observed (known findings are reported, not alarms);
1 violation (unlisted); 2 inconclusive (deciding monitor never reached, watchdog fired,
monitor errors).
"""

from __future__ import annotations

import argparse
import hashlib
import importlib
import json
import os
import random
import subprocess
import sys
import time
from collections import Counter

from . import VERIF_DIR, REPO

WORK = os.path.join(VERIF_DIR, ".work")
NSHARDS = int(os.environ.get("VERIF_SHARDS", "16"))


def h64(s: str) -> str:
    return hashlib.sha1(s.encode()).hexdigest()[:16]


class Ctx:
    """What a property's run_shard receives."""

    def __init__(self, prop, tier, seed, shard, nshards):
        self.prop, self.tier, self.seed, self.shard, self.nshards = prop, tier, seed, shard, nshards
        self.rng = random.Random(f"{seed}:{prop}:{shard}")
        self.evaluations = 0
        self.nontrivial: set[str] = set()
        self.samples: list = []
        self.extras: dict = {}
        self.deadline = None

    def case(self, key: str, nontrivial: bool, sample=None):
        """Register one explored case (key: canonical text of the input)."""
        self.evaluations += 1
        if nontrivial:
            self.nontrivial.add(h64(key))
            if sample is not None and len(self.samples) < 3:
                self.samples.append(sample)

    def share(self, total: int) -> int:
        """This shard's share of a total case budget."""
        base, rem = divmod(total, self.nshards)
        return base + (1 if self.shard < rem else 0)

    def mine(self, index: int) -> bool:
        """Deterministic partition of an enumerated space among shards."""
        return index % self.nshards == self.shard


def load_all_y0():
    """Import what the workloads will import, so that import-time warnings of the dependencies (which ``-W error`` would
    turn into import failures unrelated to any property) are issued before the filter is installed."""
    for m in ("y0.dsl", "y0.graph", "y0.algorithm.identify", "y0.algorithm.transport", "y0.algorithm.tian_id",
              "y0.algorithm.conditional_independencies", "y0.algorithm.separation.sigma_separation",
              "y0.algorithm.counterfactual_transport.api", "y0.algorithm.simplify_latent", "y0.algorithm.taheri_design",
              "y0.mutate", "y0.parser", "y0.examples", "numpy", "networkx"):
        try:
            importlib.import_module(m)
        except Exception:  # noqa: BLE001
            pass


def load_prop(prop: str):
    return importlib.import_module(f"vmon.props.{prop.lower()}")


# ---------------------------------------------------------------------------------------
# child


def child_main(args) -> int:
    from . import kernel

    mod = load_prop(args.prop)
    ctx = Ctx(args.prop, args.tier, args.seed, args.shard, args.nshards)
    t0 = time.time()
    kernel.connect_hooks()
    status = "ok"
    debug_logging = args.shard % 4 == 3 or os.environ.get("VERIF_DEBUG_LOGGING") == "1"
    if debug_logging and os.environ.get("VERIF_DEBUG_LOGGING") != "0":
        # a process setting, not an input: every fourth shard runs y0 with DEBUG logging switched on and a handler
        # that formats each record (lazy %-arguments get evaluated) and throws it away - results must not depend on it
        import logging

        class _Sink(logging.Handler):
            def emit(self, record):
                try:
                    record.getMessage()
                except Exception as e:  # noqa: BLE001
                    kernel.count(f"logging:format-error:{type(e).__name__}")
                kernel.LOG.counters["logging:debug-records-formatted"] += 1

        # (the root logger: some y0 modules name their logger after __file__, outside the "y0" hierarchy)
        lg = logging.getLogger()
        lg.setLevel(logging.DEBUG)
        lg.addHandler(_Sink())
        kernel.count("logging:debug-enabled-shards")
    warn_err = (args.shard % 4 == 2 or os.environ.get("VERIF_WARNINGS_AS_ERRORS") == "1") \
        and os.environ.get("VERIF_WARNINGS_AS_ERRORS") != "0"
    if warn_err:
        # a process setting: every fourth shard runs the way ``python -W error`` / pytest ``filterwarnings = error``
        # does once everything is imported - a warning issued on a valid input then ends the call with an exception,
        # which the totality clauses judge like any other
        import warnings

        load_all_y0()
        warnings.simplefilter("error")
        kernel.count("warnings:as-errors-shards")
    try:
        mod.run_shard(ctx)
    except Exception as e:  # noqa: BLE001
        import traceback

        status = "crash: " + repr(e) + "\n" + traceback.format_exc(limit=12)
    # listed findings are only counted per key here, so that they can never crowd an unlisted violation out of
    # the (bounded) list of records a shard hands to the parent
    found, _ = load_findings(args.prop)
    known_hits: Counter = Counter()
    keep = []
    for v in kernel.LOG.violations:
        if v["property"] != args.prop:
            # another property's monitor fired while this workload ran: counted, never shipped - a flood of them must
            # not crowd this property's own violations out of the bounded list either (seen with seed C03-P: 5 000
            # C02-labelled records in front of 700 C03 ones, of which 2 reached the parent)
            kernel.LOG.counters[f"cross:{v['property']}:{v['monitor']}"] += 1
        elif v.get("mech") in found:
            known_hits[v["mech"]] += 1
        else:
            keep.append(v)
    kernel.LOG.violations[:] = keep
    out = {
        "status": status,
        "known_hits": dict(known_hits),
        "evaluations": ctx.evaluations,
        "nontrivial": sorted(ctx.nontrivial),
        "samples": ctx.samples,
        "extras": ctx.extras,
        "violations": [dict(v, hashseed=os.environ.get("PYTHONHASHSEED"), warnings_as_errors=bool(warn_err))
                       for v in kernel.LOG.violations[:200]],
        "n_violations": len(kernel.LOG.violations),
        "counters": dict(kernel.LOG.counters),
        "monitor_errors": kernel.LOG.monitor_errors,
        "wall_s": time.time() - t0,
    }
    with open(args.out, "w") as f:
        json.dump(out, f, default=str)
    return 0


# ---------------------------------------------------------------------------------------
# known findings


def load_findings(prop: str):
    """-> (dict key -> description, list of fixed lines) for the property."""
    path = os.path.join(VERIF_DIR, "known_findings.txt")
    found, fixed = {}, []
    if not os.path.exists(path):
        return found, fixed
    for line in open(path):
        line = line.strip()
        if not line or line.startswith("#"):
            continue
        if line.startswith("finding:"):
            head, _, desc = line[len("finding:"):].partition("::")
            kv = dict(tok.split("=", 1) for tok in head.split() if "=" in tok)
            if kv.get("property") == prop:
                found[kv["key"]] = {"desc": desc.strip(), "witness": kv.get("witness")}
        elif line.startswith("fixed:"):
            if f"property={prop}" in line:
                fixed.append(line)
    return found, fixed


# ---------------------------------------------------------------------------------------
# parent


def run_parent(args) -> int:
    prop, tier, seed = args.prop, args.tier, args.seed
    mod = load_prop(prop)
    os.makedirs(WORK, exist_ok=True)
    os.makedirs(os.path.join(VERIF_DIR, "evidence"), exist_ok=True)
    t0 = time.time()
    rdir0 = os.path.join(VERIF_DIR, "replays" if os.path.realpath(REPO) == "/repo" else ".work/replays-scratch", prop)
    if os.path.isdir(rdir0):  # replay files belong to one run
        for fn in os.listdir(rdir0):
            os.remove(os.path.join(rdir0, fn))
    nshards = getattr(mod, "NSHARDS", {}).get(tier, NSHARDS) if isinstance(getattr(mod, "NSHARDS", None), dict) else NSHARDS
    timeout = getattr(mod, "TIMEOUT", {"quick": 600, "thorough": 7200})[tier]
    procs = []
    env = dict(os.environ)
    env.setdefault("PYTHONHASHSEED", "0")
    env["Y0_VERIF"] = "1"
    env["PYTHONPATH"] = VERIF_DIR + os.pathsep + env.get("PYTHONPATH", "")
    tagname = f"{prop}.{tier}.{seed}.{os.getpid()}"
    for i in range(nshards):
        out = os.path.join(WORK, f"{tagname}.{i}.json")
        if os.path.exists(out):
            os.remove(out)
        # every fourth shard runs the interpreter with -O (assert statements compiled away, __debug__ False): what the
        # library answers must not depend on it
        opt = ["-O"] if i % 4 == 1 and os.environ.get("VERIF_OPTIMIZE", "1") != "0" else []
        cmd = [sys.executable, *opt, "-m", "vmon.runner", prop, "--tier", tier, "--seed", str(seed),
               "--shard", str(i), "--nshards", str(nshards), "--out", out]
        errf = open(os.path.join(WORK, f"{tagname}.{i}.err"), "w")
        # every shard runs under its own hash seed: set/dict iteration order is a configuration dimension of
        # several properties (workload generation itself is hash-seed independent by construction)
        env_i = dict(env)
        if not os.environ.get("VERIF_FIXED_HASHSEED"):
            env_i["PYTHONHASHSEED"] = str((seed * 17 + i) % 4096)
        procs.append((i, out, errf, subprocess.Popen(cmd, cwd=VERIF_DIR, env=env_i, stdout=errf, stderr=errf)))
    suite = None
    if hasattr(mod, "install_for_suite") and (tier == "thorough" or os.environ.get("VERIF_SUITE") == "1"):
        sout = os.path.join(WORK, f"{tagname}.suite.json")
        if os.path.exists(sout):
            os.remove(sout)
        senv = dict(env, VMON_SUITE_PROP=prop, VMON_SUITE_OUT=sout, PYTHONHASHSEED="0")
        serr = open(os.path.join(WORK, f"{tagname}.suite.err"), "w")
        scmd = [sys.executable, "-m", "pytest", "-q", "-p", "no:cacheprovider", "-p", "vmon.pytest_plugin", "--timeout=900",
                "--continue-on-collection-errors", os.path.join(REPO, "tests")]
        suite = (sout, serr, subprocess.Popen(scmd, cwd=REPO, env=senv, stdout=serr, stderr=serr))
    results, problems = [], []
    for i, out, errf, p in procs:
        remaining = max(1.0, timeout - (time.time() - t0))
        try:
            p.wait(timeout=remaining)
        except subprocess.TimeoutExpired:
            p.kill()
            problems.append(f"shard {i}: watchdog fired after {timeout}s")
            continue
        finally:
            errf.close()
        if not os.path.exists(out):
            err = open(errf.name).read()[-1500:]
            problems.append(f"shard {i}: no output (rc={p.returncode}) {err}")
            continue
        r = json.load(open(out))
        if r["status"] != "ok":
            problems.append(f"shard {i}: {r['status'][:1500]}")
        results.append(r)
        os.remove(out)
        os.remove(errf.name)

    if suite is not None:
        sout, serr, sp = suite
        try:
            sp.wait(timeout=max(60.0, timeout - (time.time() - t0)))
        except subprocess.TimeoutExpired:
            sp.kill()
            problems.append("repository test-suite workload: watchdog fired")
        serr.close()
        if os.path.exists(sout):
            results.append(json.load(open(sout)))
            os.remove(sout)
            os.remove(serr.name)
        else:
            problems.append("repository test-suite workload produced no output: " + open(serr.name).read()[-800:])
    # aggregate
    evaluations = sum(r["evaluations"] for r in results)
    nontrivial = set()
    counters = Counter()
    samples, violations, merr = [], [], []
    extras: dict = {}
    nviol = 0
    shard_known: Counter = Counter()
    for r in results:
        nontrivial.update(r["nontrivial"])
        counters.update(r["counters"])
        samples.extend(r["samples"][:2])
        violations.extend(r["violations"])
        nviol += r["n_violations"]
        shard_known.update(r.get("known_hits", {}))
        merr.extend(r["monitor_errors"])
        for k, v in r["extras"].items():
            if isinstance(v, (int, float)):
                extras[k] = extras.get(k, 0) + v
            elif isinstance(v, dict):
                d = extras.setdefault(k, {})
                for kk, vv in v.items():
                    d[kk] = d.get(kk, 0) + vv if isinstance(vv, (int, float)) else vv
            elif isinstance(v, list):
                extras.setdefault(k, []).extend(v[:3])
            else:
                extras[k] = v

    found, fixed = load_findings(prop)
    known_hits: Counter = Counter(shard_known)
    unknown = []
    for v in violations:
        if v["property"] != prop:
            counters[f"cross:{v['property']}:{v['monitor']}"] += 1
            continue
        if v.get("mech") and v["mech"] in found:
            known_hits[v["mech"]] += 1
        else:
            unknown.append(v)

    # findings' witnesses are replayed on every run
    witness_status = {}
    if found and hasattr(mod, "replay"):
        from . import kernel

        for key, info in found.items():
            wpath = info.get("witness")
            if not wpath:
                continue
            wfull = os.path.join(VERIF_DIR, wpath)
            if not os.path.exists(wfull):
                witness_status[key] = "witness file missing"
                continue
            n0 = len(kernel.LOG.violations)
            try:
                mod.replay(json.load(open(wfull))["case"])
            except Exception as e:  # noqa: BLE001
                witness_status[key] = f"witness replay crashed: {e!r}"
                continue
            new = kernel.LOG.violations[n0:]
            hit = [x for x in new if x.get("mech") == key]
            other = [x for x in new if x["property"] == prop and x.get("mech") not in found]
            if hit:
                known_hits[key] += 0  # ensure the key prints
                witness_status[key] = "witness reproduces"
            else:
                witness_status[key] = "witness no longer fails"
            unknown.extend(other)

    min_nt = getattr(mod, "MIN_NONTRIVIAL", {"quick": 2, "thorough": 2})[tier]
    required = getattr(mod, "REQUIRED", [])
    inconclusive = list(problems)
    if merr:
        inconclusive.append(f"{counters['monitor_error']} monitor errors, first: {merr[0]['where']} {merr[0]['error']}")
    if len(nontrivial) < min_nt:
        inconclusive.append(f"only {len(nontrivial)} distinct non-trivial cases (< {min_nt})")
    for key in required:
        if counters.get(key, 0) == 0:
            inconclusive.append(f"deciding monitor/tag never reached: {key}")

    # report
    rc = 0
    replay_paths = []
    if unknown:
        rc = 1
        rbase = "replays" if os.path.realpath(REPO) == "/repo" else ".work/replays-scratch"
        rdir = os.path.join(VERIF_DIR, rbase, prop)
        os.makedirs(rdir, exist_ok=True)
        seen = set()
        for v in unknown:
            sig = (v["monitor"], v.get("mech"))
            if sig in seen and len(seen) >= 1 and len(replay_paths) >= 5:
                continue
            seen.add(sig)
            hh = h64(json.dumps(v, sort_keys=True, default=str))
            path = os.path.join(rbase, prop, f"{hh}.json")
            with open(os.path.join(VERIF_DIR, path), "w") as f:
                json.dump(v, f, indent=1, default=str)
            replay_paths.append(path)
            if len(replay_paths) <= 5:
                print(f"VIOLATION property={prop} replay={path}")
                print(f"  monitor={v['monitor']} mech={v.get('mech')} :: {str(v['detail'])[:400]}")
        print(f"  ({len(unknown)} unlisted violations in total)")
    for key in sorted(known_hits):
        print(f"KNOWN-FINDING: property={prop} key={key} {found[key]['desc']} "
              f"[{known_hits[key]} hits this run; {witness_status.get(key, 'no witness file')}]")
    for key in found:
        if key not in known_hits:
            print(f"note: listed finding {key} not hit in this run ({witness_status.get(key, 'no witness file')})")
    if rc == 0 and inconclusive:
        rc = 2
        for why in inconclusive:
            print(f"INCONCLUSIVE property={prop} reason={why}")

    wall = time.time() - t0
    cov = {
        "evaluations": evaluations,
        "distinct_nontrivial": len(nontrivial),
        "rule": getattr(mod, "RULE", ""),
        "samples": samples[:8],
        "monitor_evaluations": {k[5:]: v for k, v in sorted(counters.items()) if k.startswith("eval:")},
        "exceptions_observed": {k[6:]: v for k, v in sorted(counters.items()) if k.startswith("raise:")},
        "hook_tags": {k[4:]: v for k, v in sorted(counters.items()) if k.startswith("tag:")},
        "counters": {k: v for k, v in sorted(counters.items())
                     if not k.startswith(("eval:", "raise:", "tag:"))},
        "known_finding_hits": dict(known_hits),
        "unlisted_violations": len(unknown),
        "inconclusive_reasons": inconclusive,
        "shards": nshards,
        "hash_seeds": "one PYTHONHASHSEED per shard: (VERIF_SEED*17 + shard) mod 4096",
        "interpreter_modes": "shards 1,5,9,13 run under python -O; shards 3,7,11,15 with the root logger at DEBUG; shards 2,6,10,14 with warnings turned into errors",
        "repo": REPO,
    }
    cov.update(extras)
    if getattr(mod, "EXHAUSTIVE", {}).get(tier):
        cov["exhaustive"] = True
        cov["exhaustive_scope"] = mod.EXHAUSTIVE[tier]
    ev = {
        "property_id": prop,
        "tier": tier,
        "seed": seed,
        "level": "exploration",
        "coverage": cov,
        "assumptions": getattr(mod, "ASSUMPTIONS", []),
        "wall_s": round(wall, 2),
        "violations": len(unknown),
    }
    evdir = os.path.join(VERIF_DIR, "evidence")
    if os.path.realpath(REPO) != "/repo":  # mutant self-test on a scratch copy: never touch the real evidence
        evdir = os.path.join(WORK, "evidence-scratch")
        os.makedirs(evdir, exist_ok=True)
    with open(os.path.join(evdir, f"{prop}.json"), "w") as f:
        json.dump(ev, f, indent=1, default=str)
    verdict = {0: "HELD", 1: "VIOLATED", 2: "INCONCLUSIVE"}[rc]
    print(f"{prop} {tier} seed={seed}: {verdict} — {evaluations} cases, {len(nontrivial)} distinct non-trivial, "
          f"{sum(v for k, v in counters.items() if k.startswith('eval:'))} monitor evaluations, "
          f"{sum(known_hits.values())} known-finding hits, {len(unknown)} unlisted violations, {wall:.1f}s")
    return rc


def run_replay(args) -> int:
    from . import kernel

    mod = load_prop(args.prop)
    kernel.connect_hooks()
    data = json.load(open(args.replay))
    hs = data.get("hashseed")
    if hs is not None and os.environ.get("PYTHONHASHSEED") != str(hs) and not os.environ.get("VERIF_REPLAY_REEXEC"):
        env = dict(os.environ, PYTHONHASHSEED=str(hs), VERIF_REPLAY_REEXEC="1")
        return subprocess.run([sys.executable, "-m", "vmon.runner", args.prop, "--replay", args.replay], env=env,
                              cwd=VERIF_DIR).returncode
    case = data.get("case", data)
    if data.get("warnings_as_errors"):
        import warnings

        load_all_y0()
        warnings.simplefilter("error")
    mod.replay(case)
    found, _ = load_findings(args.prop)
    rc = 0
    for v in kernel.LOG.violations:
        if v["property"] != args.prop:
            continue
        known = v.get("mech") in found
        print(("KNOWN-FINDING: " if known else "VIOLATION ") + f"property={args.prop} replay={args.replay}")
        print(f"  monitor={v['monitor']} mech={v.get('mech')} :: {str(v['detail'])[:1000]}")
        if not known:
            rc = 1
    if not kernel.LOG.violations:
        print(f"replay {args.replay}: no monitor fired")
    for e in kernel.LOG.monitor_errors:
        print("monitor error:", e["where"], e["error"], e["tb"])
    return rc


def main(argv=None) -> int:
    ap = argparse.ArgumentParser()
    ap.add_argument("prop")
    ap.add_argument("--tier", default=os.environ.get("VERIF_TIER", "quick"), choices=["quick", "thorough"])
    ap.add_argument("--seed", type=int, default=int(os.environ.get("VERIF_SEED", "0")))
    ap.add_argument("--shard", type=int, default=None)
    ap.add_argument("--nshards", type=int, default=NSHARDS)
    ap.add_argument("--out", default=None)
    ap.add_argument("--replay", default=None)
    args = ap.parse_args(argv)
    args.prop = args.prop.upper()
    if args.replay:
        return run_replay(args)
    if args.shard is not None:
        return child_main(args)
    return run_parent(args)


if __name__ == "__main__":
    sys.exit(main())
