"""C14 monitors: post-conditions on the real NxMixedGraph surgery methods against O3.

Installed on the class, so they also fire on every call the identification algorithms make
during *their* workloads (graphs no test builds).  Every condition records and returns.
"""

from __future__ import annotations

from . import kernel
from .refgraph import RG
from .snap import freeze_graph

PROP = "C14"


def _invariant_ok(g) -> bool:
    return set(g.directed.nodes()) == set(g.undirected.nodes())


def _check_invariant(g, where):
    if not _invariant_ok(g):
        kernel.violation(
            PROP, "class-invariant",
            f"{where}: directed and undirected components have different node sets: "
            f"{sorted(map(str, g.directed.nodes()))} vs {sorted(map(str, g.undirected.nodes()))}",
            mech=None,
        )


def _fmt_rg(r: RG):
    return {
        "nodes": sorted(map(str, r.V)),
        "di": sorted(f"{u}->{v}" for u, v in r.D),
        "bi": sorted("<->".join(sorted(map(str, e))) for e in r.B),
    }


def _pre_graph(self, *a, **k):
    return {"fz": freeze_graph(self), "ref": RG.from_nx(self)}


def _receiver_unchanged(snap, self, op):
    if snap is None:
        return
    if freeze_graph(self) != snap["fz"]:
        kernel.violation(PROP, "receiver-unchanged", f"{op} modified its receiver", witness={"op": op})


def _cmp_graph(snap, res, want: RG, op, args):
    from y0.graph import NxMixedGraph

    if not isinstance(res, NxMixedGraph):
        kernel.violation(PROP, f"{op}", f"{op} returned {type(res).__name__}, not a mixed graph")
        return
    _check_invariant(res, op)
    got = RG.from_nx(res)
    if got != want:
        kernel.violation(
            PROP, op,
            f"{op}({args}) on {_fmt_rg(snap['ref'])}: got {_fmt_rg(got)} expected {_fmt_rg(want)}",
            witness={"op": op, "args": str(args), "got": _fmt_rg(got), "want": _fmt_rg(want)},
        )
    if res is snap.get("self"):
        kernel.violation(PROP, op, f"{op} returned the receiver itself instead of a new graph")


class _OneShot(Exception):
    pass


def _as_set(vertices, op=None):
    """The vertex argument as a set.  A one-shot iterator has been consumed by the call itself: the driver's own
    record of the argument is used if there is one (LOG.case['S']), otherwise the call is counted, not judged."""
    from y0.dsl import Variable

    if isinstance(vertices, Variable):
        return {vertices}
    if isinstance(vertices, (set, frozenset, list, tuple, dict)) or hasattr(vertices, "__len__"):
        return set(vertices)
    case = kernel.LOG.case
    if isinstance(case, dict) and isinstance(case.get("S"), list) and op is not None \
            and str(case.get("op", "")).split(":")[-1] == op:
        from .gen.graphs import node

        return {node(n) for n in case["S"]}
    raise _OneShot()


def _in_domain(ref: RG, S) -> bool:
    ok = set(S) <= set(ref.V)
    if not ok:
        kernel.count("C14:out-of-domain-argument")
    return ok


def _mk_surgery(op, refop):
    def post(snap, res, self, vertices, *a, **k):
        _receiver_unchanged(snap, self, op)
        try:
            S = _as_set(vertices, op)
        except _OneShot:
            kernel.count("C14:one-shot-iterable-argument-not-judged")
            return
        if not _in_domain(snap["ref"], S):
            return
        _cmp_graph(snap, res, refop(snap["ref"], S), op, sorted(map(str, S)))

    return post


def _mk_setop(op, refop):
    def post(snap, res, self, vertices, *a, **k):
        _receiver_unchanged(snap, self, op)
        try:
            S = _as_set(vertices, op)
        except _OneShot:
            kernel.count("C14:one-shot-iterable-argument-not-judged")
            return
        if not _in_domain(snap["ref"], S):
            return
        want = refop(snap["ref"], S)
        if set(res) != set(want) or not isinstance(res, (set, frozenset)):
            kernel.violation(
                PROP, op,
                f"{op}({sorted(map(str, S))}) on {_fmt_rg(snap['ref'])}: got {sorted(map(str, res))} "
                f"expected {sorted(map(str, want))}",
                witness={"op": op},
            )

    return post


def _post_districts(snap, res, self):
    _receiver_unchanged(snap, self, "districts")
    want = snap["ref"].districts()
    got = {frozenset(d) for d in res}
    flat = [x for d in res for x in d]
    if got != want or len(flat) != len(set(flat)) or set(flat) != set(snap["ref"].V):
        kernel.violation(
            PROP, "districts",
            f"districts() on {_fmt_rg(snap['ref'])}: got {sorted(sorted(map(str, d)) for d in got)} expected "
            f"{sorted(sorted(map(str, d)) for d in want)}",
        )


def _post_moralize(snap, res, self):
    _receiver_unchanged(snap, self, "moralize")
    _cmp_graph(snap, res, snap["ref"].moralize(), "moralize", "")


def _post_disorient(snap, res, self):
    _receiver_unchanged(snap, self, "disorient")
    ref = snap["ref"]
    got_nodes = set(res.nodes())
    got_edges = {frozenset(e) for e in res.edges()}
    if got_nodes != set(ref.V) or got_edges != ref.disorient_edges() or res.is_directed() or res.is_multigraph():
        kernel.violation(
            PROP, "disorient",
            f"disorient() on {_fmt_rg(ref)}: nodes {sorted(map(str, got_nodes))} edges "
            f"{sorted(sorted(map(str, e)) for e in got_edges)}",
        )


def _post_topological_sort(snap, res, self):
    _receiver_unchanged(snap, self, "topological_sort")
    if not snap["ref"].is_topological(list(res)):
        kernel.violation(
            PROP, "topological_sort",
            f"topological_sort() on {_fmt_rg(snap['ref'])} returned {list(map(str, res))}: not a permutation "
            f"of the nodes respecting every directed edge",
        )


def _post_pre(snap, res, self, nodes, topological_sort_order=None):
    _receiver_unchanged(snap, self, "pre")
    ref = snap["ref"]
    try:
        S = _as_set(nodes, "pre")
    except _OneShot:
        kernel.count("C14:one-shot-iterable-argument-not-judged")
        return
    res = list(res)
    if topological_sort_order:
        order = list(topological_sort_order)
        want = []
        for n in order:
            if n in S:
                break
            want.append(n)
        if res != want:
            kernel.violation(PROP, "pre", f"pre({sorted(map(str, S))}, {list(map(str, order))}) = "
                             f"{list(map(str, res))}, expected {list(map(str, want))}")
    else:
        # some valid topological order of the graph must have res as the prefix before S
        ok = (
            len(res) == len(set(res))
            and not (set(res) & S)
            and set(res) <= set(ref.V)
            # prefix-closed under parents
            and all(ref.pa(v) <= set(res[:i]) for i, v in enumerate(res))
        )
        # the next element of the order was in S: if S∩V non-empty, then res != all nodes
        if ok and (S & set(ref.V)) and len(res) == len(ref.V):
            ok = False
        if ok and not (S & set(ref.V)) and len(res) != len(ref.V):
            ok = False
        if not ok:
            kernel.violation(PROP, "pre", f"pre({sorted(map(str, S))}) on {_fmt_rg(ref)} = {list(map(str, res))}: "
                             f"not the prefix of a topological order before its first element of the set")


def _post_intervene(snap, res, self, variables):
    _receiver_unchanged(snap, self, "intervene")
    ref = snap["ref"]
    names = {i.name for i in variables}
    iv = set(variables)
    want = RG.make(
        [v.intervene(iv) for v in ref.V],
        [(u.intervene(iv), v.intervene(iv)) for u, v in ref.D if v.name not in names],
        [tuple(x.intervene(iv) for x in e) for e in ref.B if not ({x.name for x in e} & names)],
    )
    _cmp_graph(snap, res, want, "intervene", sorted(map(str, variables)))


def _pre_paths(graph, sources, targets):
    return {"fz": freeze_graph(graph), "ref": RG.from_nx(graph)}


def _post_paths(snap, res, graph, sources, targets):
    _receiver_unchanged(snap, graph, "get_nodes_in_directed_paths")
    try:
        S, T = _as_set(sources), _as_set(targets)
    except _OneShot:
        kernel.count("C14:one-shot-iterable-argument-not-judged")
        return
    ref = snap["ref"]
    if (S & T) or not (S | T) <= set(ref.V):
        kernel.count("C14:out-of-domain-argument")
        return
    want = ref.nodes_on_directed_paths(S, T)
    if set(res) != want:
        kernel.violation(
            PROP, "get_nodes_in_directed_paths",
            f"paths({sorted(map(str, S))}->{sorted(map(str, T))}) on {_fmt_rg(ref)}: got {sorted(map(str, res))} "
            f"expected {sorted(map(str, want))}",
        )


def _post_mutator(snap, res, self, *a, **k):
    _check_invariant(self, "mutator")


def install(invariant=True):
    import y0.graph as yg

    G = yg.NxMixedGraph
    for op, refop in [
        ("subgraph", RG.subgraph),
        ("remove_in_edges", RG.remove_in_edges),
        ("remove_out_edges", RG.remove_out_edges),
        ("remove_nodes_from", RG.remove_nodes_from),
    ]:
        kernel.install_method(G, op, pre=_pre_graph, post=_mk_surgery(op, refop))
    for op, refop in [
        ("ancestors_inclusive", RG.ancestors_inclusive),
        ("descendants_inclusive", RG.descendants_inclusive),
        ("get_markov_pillow", RG.markov_pillow),
        ("get_markov_blanket", RG.markov_blanket),
    ]:
        kernel.install_method(G, op, pre=_pre_graph, post=_mk_setop(op, refop))
    kernel.install_method(G, "districts", pre=_pre_graph, post=_post_districts)
    kernel.install_method(G, "moralize", pre=_pre_graph, post=_post_moralize)
    kernel.install_method(G, "disorient", pre=_pre_graph, post=_post_disorient)
    kernel.install_method(G, "topological_sort", pre=_pre_graph, post=_post_topological_sort)
    kernel.install_method(G, "pre", pre=_pre_graph, post=_post_pre)
    kernel.install_method(G, "intervene", pre=_pre_graph, post=_post_intervene)
    kernel.install_function(yg, "get_nodes_in_directed_paths", pre=_pre_paths, post=_post_paths)
    if invariant:
        for m in ("add_node", "add_directed_edge", "add_undirected_edge"):
            kernel.install_method(G, m, post=_post_mutator)
