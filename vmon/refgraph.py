"""O3 — reference mixed-graph algebra on plain sets (DESIGN 2.3).

A mixed graph is RG(V, D, B): V a frozenset of hashable nodes, D a frozenset of ordered
pairs, B a frozenset of 2-element frozensets.  Every operation is taken from its textbook
definition; m-separation is Bayes-ball reachability on the explicit latent DAG
(Koller & Friedman Alg. 3.1) — deliberately *not* moralisation, which is what y0 uses.
"""

from __future__ import annotations

import itertools as itt
from dataclasses import dataclass


@dataclass(frozen=True)
class RG:
    V: frozenset
    D: frozenset
    B: frozenset

    # ---- constructors ------------------------------------------------------------
    @staticmethod
    def make(nodes, directed=(), undirected=()):
        V = set(nodes)
        D = set()
        B = set()
        for u, v in directed:
            D.add((u, v))
            V.update((u, v))
        for u, v in undirected:
            B.add(frozenset((u, v)))
            V.update((u, v))
        return RG(frozenset(V), frozenset(D), frozenset(B))

    @staticmethod
    def from_nx(g):
        """From a y0 NxMixedGraph (reads the two networkx graphs directly)."""
        from y0.dsl import Variable

        def n(x):
            # a graph over plain strings (the identification entry points accept one) stands for the graph over the
            # variables of exactly those names
            return Variable(x) if isinstance(x, str) else x

        V = {n(x) for x in g.directed.nodes()} | {n(x) for x in g.undirected.nodes()}
        D = {(n(u), n(v)) for u, v in g.directed.edges()}
        B = {frozenset((n(u), n(v))) for u, v in g.undirected.edges()}
        return RG(frozenset(V), frozenset(D), frozenset(B))

    # ---- elementary relations ----------------------------------------------------
    def pa(self, v):
        return {u for (u, w) in self.D if w == v}

    def ch(self, v):
        return {w for (u, w) in self.D if u == v}

    def sib(self, v):
        return {next(iter(e - {v})) if len(e) == 2 else v for e in self.B if v in e}

    def parents_map(self):
        m = {v: set() for v in self.V}
        for u, w in self.D:
            m[w].add(u)
        return m

    def children_map(self):
        m = {v: set() for v in self.V}
        for u, w in self.D:
            m[u].add(w)
        return m

    # ---- surgery -----------------------------------------------------------------
    def subgraph(self, S):
        S = set(S)
        return RG(
            frozenset(S),
            frozenset((u, v) for u, v in self.D if u in S and v in S),
            frozenset(e for e in self.B if e <= S),
        )

    def remove_in_edges(self, S):
        S = set(S)
        return RG(
            self.V,
            frozenset((u, v) for u, v in self.D if v not in S),
            frozenset(e for e in self.B if not (e & S)),
        )

    def remove_out_edges(self, S):
        S = set(S)
        return RG(self.V, frozenset((u, v) for u, v in self.D if u not in S), self.B)

    def remove_nodes_from(self, S):
        return self.subgraph(self.V - set(S))

    def moralize(self):
        B = set(self.B)
        pm = self.parents_map()
        for v in self.V:
            for a, b in itt.combinations(pm[v], 2):
                B.add(frozenset((a, b)))
        return RG(self.V, self.D, frozenset(B))

    def disorient_edges(self):
        """Edge set of the simple undirected graph with edges D ∪ B (self-loops kept as 1-sets)."""
        return {frozenset((u, v)) for u, v in self.D} | set(self.B)

    # ---- closures ----------------------------------------------------------------
    def ancestors_inclusive(self, S):
        pm = self.parents_map()
        seen = set(S)
        stack = list(seen)
        while stack:
            x = stack.pop()
            for p in pm.get(x, ()):
                if p not in seen:
                    seen.add(p)
                    stack.append(p)
        return seen

    def descendants_inclusive(self, S):
        cm = self.children_map()
        seen = set(S)
        stack = list(seen)
        while stack:
            x = stack.pop()
            for c in cm.get(x, ()):
                if c not in seen:
                    seen.add(c)
                    stack.append(c)
        return seen

    def districts(self):
        parent = {v: v for v in self.V}

        def find(x):
            while parent[x] != x:
                parent[x] = parent[parent[x]]
                x = parent[x]
            return x

        for e in self.B:
            e = list(e)
            if len(e) == 2:
                ra, rb = find(e[0]), find(e[1])
                if ra != rb:
                    parent[ra] = rb
        groups: dict = {}
        for v in self.V:
            groups.setdefault(find(v), set()).add(v)
        return {frozenset(s) for s in groups.values()}

    def district_of(self, v):
        for d in self.districts():
            if v in d:
                return d
        raise KeyError(v)

    def markov_pillow(self, S):
        S = set(S)
        out = set()
        for v in S:
            out |= self.pa(v)
        return out - S

    def markov_blanket(self, S):
        S = set(S)
        out = set()
        for v in S:
            out |= self.pa(v)
            for c in self.ch(v):
                out.add(c)
                out |= self.pa(c)
        return out - S

    def is_acyclic(self):
        pm = self.parents_map()
        indeg = {v: len(pm[v]) for v in self.V}
        cm = self.children_map()
        queue = [v for v in self.V if indeg[v] == 0]
        n = 0
        while queue:
            x = queue.pop()
            n += 1
            for c in cm[x]:
                indeg[c] -= 1
                if indeg[c] == 0:
                    queue.append(c)
        return n == len(self.V)

    def is_topological(self, order):
        order = list(order)
        if len(order) != len(set(order)) or set(order) != set(self.V):
            return False
        pos = {v: i for i, v in enumerate(order)}
        return all(pos[u] < pos[v] for u, v in self.D)

    def topological_order(self, key=None):
        """A deterministic topological order (Kahn, ties by key)."""
        key = key or (lambda x: str(x))
        pm = self.parents_map()
        cm = self.children_map()
        indeg = {v: len(pm[v]) for v in self.V}
        ready = sorted([v for v in self.V if indeg[v] == 0], key=key)
        out = []
        while ready:
            x = ready.pop(0)
            out.append(x)
            for c in cm[x]:
                indeg[c] -= 1
                if indeg[c] == 0:
                    ready.append(c)
            ready.sort(key=key)
        if len(out) != len(self.V):
            raise ValueError("cyclic")
        return out

    # ---- directed paths ----------------------------------------------------------
    def nodes_on_directed_paths(self, S, T):
        """Nodes on some directed path with >=1 edge from s in S to t in T, s != t (DAG case:
        de(s) ∩ an(t) closure; cyclic case: simple paths)."""
        S, T = set(S), set(T)
        out = set()
        if self.is_acyclic():
            for s in S:
                de = self.descendants_inclusive({s})
                for t in T:
                    if t == s or t not in de:
                        continue
                    an = self.ancestors_inclusive({t})
                    out |= de & an
            return out
        cm = self.children_map()

        def dfs(path, t):
            x = path[-1]
            if x == t:
                out.update(path)
                return
            for c in cm[x]:
                if c not in path:
                    dfs(path + [c], t)

        for s in S:
            for t in T:
                if s != t:
                    dfs([s], t)
        return out

    # ---- latent DAG and m-separation ----------------------------------------------
    def latent_dag(self):
        """(parents map, children map) of the DAG in which each bidirected edge {u,v} is an
        unobserved common parent ('L', u, v)."""
        pm = {v: set(p) for v, p in self.parents_map().items()}
        for e in self.B:
            e = sorted(e, key=str)
            if len(e) != 2:
                continue
            lat = ("L", e[0], e[1])
            pm[lat] = set()
            pm[e[0]].add(lat)
            pm[e[1]].add(lat)
        cm = {v: set() for v in pm}
        for v, ps in pm.items():
            for p in ps:
                cm[p].add(v)
        return pm, cm

    def m_connected_set(self, a, C):
        """All observed nodes d-connected to ``a`` given C in the latent DAG (Bayes ball)."""
        pm, cm = self.latent_dag()
        return bayes_ball(pm, cm, a, set(C)) & set(self.V)

    def m_separated(self, a, b, C):
        C = set(C)
        if a == b or a in C or b in C:
            raise ValueError("bad separation query")
        return b not in self.m_connected_set(a, C)


def bayes_ball(pm, cm, src, Z):
    """Koller–Friedman Alg. 3.1: nodes reachable from src via active trails given Z."""
    A = set(Z)
    stack = list(Z)
    while stack:
        x = stack.pop()
        for p in pm[x]:
            if p not in A:
                A.add(p)
                stack.append(p)
    todo = [(src, "up")]
    visited = set()
    reach = set()
    while todo:
        y, d = todo.pop()
        if (y, d) in visited:
            continue
        visited.add((y, d))
        if y not in Z:
            reach.add(y)
        if d == "up" and y not in Z:
            for p in pm[y]:
                todo.append((p, "up"))
            for c in cm[y]:
                todo.append((c, "down"))
        elif d == "down":
            if y not in Z:
                for c in cm[y]:
                    todo.append((c, "down"))
            if y in A:
                for p in pm[y]:
                    todo.append((p, "up"))
    return reach


# ---------------------------------------------------------------------------------------
# latent projection of a DAG with latent tags (Verma / Evans)


def latent_projection(nodes, edges, latent):
    """ADMG (RG) over the observed nodes of DAG (nodes, edges) with ``latent`` ⊆ nodes:
    u→v iff a directed path u⇒v exists whose inner nodes are all latent;
    u↔v iff some latent-only-connected common ancestor: there is a latent node l with
    directed paths l⇒u and l⇒v whose inner nodes are all latent (l itself latent)."""
    nodes = set(nodes)
    latent = set(latent)
    obs = nodes - latent
    cm = {v: set() for v in nodes}
    for u, v in edges:
        cm[u].add(v)

    def obs_reach(start):
        """observed nodes reachable from start through latent-only inner nodes"""
        out = set()
        seen = set()
        stack = [start]
        while stack:
            x = stack.pop()
            for c in cm[x]:
                if c in latent:
                    if c not in seen:
                        seen.add(c)
                        stack.append(c)
                else:
                    out.add(c)
        return out

    D = set()
    for u in obs:
        for v in obs_reach(u):
            if v != u:
                D.add((u, v))
    B = set()
    for l in latent:
        r = obs_reach(l)
        for a, b in itt.combinations(sorted(r, key=str), 2):
            B.add(frozenset((a, b)))
    return RG(frozenset(obs), frozenset(D), frozenset(B))


def dag_d_separated(nodes, edges, a, b, C):
    pm = {v: set() for v in nodes}
    cm = {v: set() for v in nodes}
    for u, v in edges:
        pm[v].add(u)
        cm[u].add(v)
    return b not in bayes_ball(pm, cm, a, set(C))


# ---------------------------------------------------------------------------------------
# typed-path analysis (used by C20's finding predicates)


def typed_paths(ref: RG, a, b, max_paths=20000):
    """All simple paths a..b in the skeleton, with every choice of edge among parallel ones.
    Yields (nodes, marks) where marks[i] = (mark_at_nodes[i], mark_at_nodes[i+1]) with
    '>' meaning arrowhead at that end and '-' meaning tail."""
    adj: dict = {v: {} for v in ref.V}
    for u, v in ref.D:
        adj[u].setdefault(v, []).append(("-", ">"))
        adj[v].setdefault(u, []).append((">", "-"))
    for e in ref.B:
        e = list(e)
        if len(e) == 2:
            adj[e[0]].setdefault(e[1], []).append((">", ">"))
            adj[e[1]].setdefault(e[0], []).append((">", ">"))
    count = 0

    def rec(path, marks):
        nonlocal count
        x = path[-1]
        if x == b:
            count += 1
            yield list(path), list(marks)
            return
        for y, kinds in adj[x].items():
            if y in path:
                continue
            for k in kinds:
                if count > max_paths:
                    return
                path.append(y)
                marks.append(k)
                yield from rec(path, marks)
                path.pop()
                marks.pop()

    yield from rec([a], [])


def analyse_connection(ref: RG, a, b, C):
    """-> dict(connected, plain, plain_if_bow_fixed) where a path is *plain* when y0's
    sigma-separation shortcut is able to see it (see DESIGN §4 C20)."""
    C = set(C)
    anC = ref.ancestors_inclusive(C)
    bows = {(u, v) for (u, v) in ref.D if frozenset((u, v)) in ref.B}
    connected = plain = plain_bowfixed = False
    for nodes, marks in typed_paths(ref, a, b):
        ok = True
        is_plain = True
        is_plain_bf = True
        for i in range(1, len(nodes) - 1):
            m = nodes[i]
            head_in = marks[i - 1][1] == ">"
            head_out = marks[i][0] == ">"
            if head_in and head_out:  # collider
                if m not in anC:
                    ok = False
                    break
                if m in C:
                    continue
                kids = [c for c in ref.ch(m) if c in C]
                if not kids:
                    is_plain = is_plain_bf = False
                elif not any((m, c) not in bows for c in kids):
                    is_plain = False
            else:
                if m in C:
                    ok = False
                    break
                # tails at m must not be bows
                if not head_in and (m, nodes[i - 1]) in bows:
                    is_plain = False
                if not head_out and (m, nodes[i + 1]) in bows:
                    is_plain = False
        if not ok:
            continue
        connected = True
        plain = plain or is_plain
        plain_bowfixed = plain_bowfixed or is_plain_bf
        if plain:
            break
    return {"connected": connected, "plain": plain, "plain_if_bow_fixed": plain_bowfixed}
