"""C06 — estimands mention only distributions the analyst actually has (DESIGN §4 C06)."""

from __future__ import annotations

from .. import kernel, mon_cf, mon_id, mon_trso
from ..gen import events as gev
from ..gen import graphs as gg
from ..gen import queries as gq
from . import c05, c08

PROP = "C06"
RULE = (
    "cases = structural-only workload (no model evaluation) through all five entry points: identify_outcomes / "
    "identify (ADMG n<=8, disjoint X,Y), identify_outcomes(conditions=)/idc (n<=7), identify_target_outcomes (n<=6, 0-3 "
    "source domains, biased towards experiments on treatments), id_star and idc_star (n<=5, random event "
    "conjunctions). A syntactic walk is installed as a post-condition on every entry point: ID/IDC estimands may "
    "contain only plain probabilities over plain, unvalued graph nodes (no subscript, counterfactual variable, "
    "population tag, Q-factor, non-graph name such as T_.. or u_.., Sum ranges inside the graph); a transport "
    "estimand only target-observational terms or PP[pi_i] of a DECLARED domain whose variables share one subscript "
    "set contained in that domain's declared experiment set, never a transport node, never an undeclared "
    "population; an ID*/IDC* estimand only terms whose variables share one subscript set. non-trivial = an "
    "expression with >=2 probability leaves was returned; distinct by (entry point, graph, query)."
)
ASSUMPTIONS = ["the vocabulary of each algorithm as spelled out in the property statement"]
MIN_NONTRIVIAL = {"quick": 3000, "thorough": 60000}
REQUIRED = ["C06:id-estimands-walked", "C06:trso-estimands-walked", "C06:idstar-estimands-walked",
            "C06:idcstar-estimands-walked", "eval:idc", "eval:identify"]
TIMEOUT = {"quick": 900, "thorough": 7200}


def _nleaves(res):
    from ..denote import leaves

    try:
        return sum(1 for _ in leaves(res))
    except Exception:  # noqa: BLE001
        return 0


def _trso_call(g, gd, q, doms):
    """identify_target_outcomes with the per-domain dicts in different key orders and - on every third graph - with the
    caller's own set object shared between the target arguments and an equal per-domain set."""
    from y0.algorithm.transport import identify_target_outcomes
    from y0.dsl import Variable

    tx = {Variable(x) for x in q["X"]}
    ty = {Variable(y) for y in q["Y"]}
    so = {Variable(p): {Variable(w) for w in zw[1]} for p, zw in doms.items()}
    si = {Variable(p): {Variable(z) for z in doms[p][0]} for p in reversed(list(doms))}
    if sum(map(ord, gg.key(gd))) % 3 == 0:
        for p_ in list(si):
            if si[p_] == tx:
                si[p_] = tx
                kernel.count("C06:aliased-argument-sets")
            if so[p_] == ty:
                so[p_] = ty
                kernel.count("C06:aliased-argument-sets")
    return identify_target_outcomes(g, target_outcomes=ty, target_interventions=tx, surrogate_outcomes=so,
                                    surrogate_interventions=si)


def run_shard(ctx):
    gg.ALLOW_ODD = True  # node names that are not Python identifiers are node names like any other
    gg.ALLOW_PREFIXED = False  # a name T_x is a selection node for the transport algorithms
    mon_id.install(semantic=False)
    mon_trso.install(semantic=False)
    mon_cf.install_idcstar()
    mon_cf.CONFIG.update(K=0)  # no models: the semantic judgement of ID*/IDC* is skipped, the walk is not
    # (bind the entry points only now: a reference taken before the monitors are installed bypasses them)
    from y0.algorithm.identify import Identification, Query, id_star, idc, idc_star, identify, identify_outcomes
    from y0.algorithm.transport import identify_target_outcomes
    from y0.dsl import Variable
    rng = ctx.rng
    n_id = ctx.share({"quick": 9000, "thorough": 250000}[ctx.tier])
    for i in range(n_id):
        cond = i % 3 == 0
        gd = gg.random_admg(rng, rng.randint(3, 7 if cond else 8))
        q = gq.random_query(rng, gd, max_size=3, with_conditions=cond, allow_empty_x=cond)
        if q is None:
            continue
        g = gg.to_nx(gd)
        X, Y, Z = ({Variable(v) for v in q[k]} for k in "XYZ")
        kernel.LOG.reset_case({"graph": gd, **{k: q[k] for k in "XYZ"}})
        res = None
        try:
            if cond and Z:
                res = identify_outcomes(g, X, Y, Z) if i % 2 else idc(Identification(query=Query(outcomes=Y, treatments=X, conditions=Z), graph=g))
            elif X:
                res = identify_outcomes(g, X, Y) if i % 2 else identify(Identification(query=Query(outcomes=Y, treatments=X), graph=g))
        except Exception:  # noqa: BLE001
            pass
        ctx.case(f"id|{gg.key(gd)}|{q['X']}|{q['Y']}|{q['Z']}", res is not None and _nleaves(res) >= 2,
                 sample={"entry": "ID/IDC", "graph": gd, **{k: q[k] for k in "XYZ"}, "estimand": str(res)})
    pool: list = []
    for i in range(ctx.share({"quick": 2500, "thorough": 60000}[ctx.tier])):
        bc = c05.biased_case(rng) if i % 3 else None
        if bc is None:
            gd = gg.random_admg(rng, rng.randint(3, 6))
            q = gq.random_query(rng, gd)
            if q is None:
                continue
        else:
            gd, q = bc
        doms = c05.random_domains(rng, gd, q, biased=bool(i % 3))
        g = gg.to_nx(gd)
        kernel.LOG.reset_case({"graph": gd, "X": q["X"], "Y": q["Y"], "domains": doms})
        res = None
        try:
            res = _trso_call(g, gd, q, doms)
        except Exception:  # noqa: BLE001
            pass
        ctx.case(f"trso|{gg.key(gd)}|{q['X']}|{q['Y']}|{sorted(doms.items())}", res is not None and _nleaves(res) >= 2,
                 sample={"entry": "TRSO", "graph": gd, "X": q["X"], "Y": q["Y"], "domains": doms, "estimand": str(res)})
        if "trso_line10" in mon_trso.FACTS.get("lines", ()):
            pool.append((gd, q, doms))
    # feedback towards line 10 inside / after a source domain (vocabulary regressions hide in that rare branch)
    for i in range(ctx.share({"quick": 4000, "thorough": 100000}[ctx.tier])):
        if pool and rng.random() < 0.9:
            gd, q, doms = rng.choice(pool)
            gd = gg.mutate(gd, rng)
            if rng.random() < 0.3:
                q = gq.random_query(rng, gd) or q
            if not (set(q["X"]) | set(q["Y"])) <= set(gd["nodes"]):
                continue
            if rng.random() < 0.6:
                doms = c05.random_domains(rng, gd, q, True)
            if any(not set(z + w) <= set(gd["nodes"]) for z, w in doms.values()):
                continue
        else:
            bc = c05.biased_case(rng)
            if bc is None:
                continue
            gd, q = bc
            doms = c05.random_domains(rng, gd, q, True)
        g = gg.to_nx(gd)
        kernel.LOG.reset_case({"graph": gd, "X": q["X"], "Y": q["Y"], "domains": doms})
        res = None
        try:
            res = _trso_call(g, gd, q, doms)
        except Exception:  # noqa: BLE001
            pass
        ctx.case(f"trso|{gg.key(gd)}|{q['X']}|{q['Y']}|{sorted(doms.items())}", res is not None and _nleaves(res) >= 2)
        if "trso_line10" in mon_trso.FACTS.get("lines", ()):
            if len(pool) < 300:
                pool.append((gd, q, doms))
            else:
                pool[rng.randrange(len(pool))] = (gd, q, doms)
    for i in range(ctx.share({"quick": 3000, "thorough": 60000}[ctx.tier])):
        gd = gg.random_admg(rng, rng.choice([2, 3, 4, 4, 5]))
        g = gg.to_nx(gd)
        res = None
        if i % 2:
            ev, cls = gev.random_event(rng, gd)
            if not ev or cls == "contradictory_pair":
                continue
            kernel.LOG.reset_case({"graph": gd, "event": ev})
            try:
                res = id_star(g, gev.to_event(ev))
            except Exception:  # noqa: BLE001
                pass
            key = f"idstar|{gg.key(gd)}|{gev.key(ev)}"
            sample = {"entry": "ID*", "graph": gd, "event": gev.key(ev), "estimand": str(res)}
        else:
            sp = c08.split_event(rng, gd)
            if sp is None:
                continue
            out, cond, _ = sp
            kernel.LOG.reset_case({"graph": gd, "outcomes": out, "conditions": cond})
            try:
                res = idc_star(g, gev.to_event(out), gev.to_event(cond))
            except Exception:  # noqa: BLE001
                pass
            key = f"idcstar|{gg.key(gd)}|{gev.key(out)}|{gev.key(cond)}"
            sample = {"entry": "IDC*", "graph": gd, "outcomes": gev.key(out), "conditions": gev.key(cond), "estimand": str(res)}
        ctx.case(key, res is not None and _nleaves(res) >= 2, sample=sample)


def replay(case):
    from . import c01, c03, c05 as p5, c07, c08 as p8

    if "event" in case:
        c07.replay(case)
    elif "outcomes" in case:
        p8.replay(case)
    elif "domains" in case:
        mon_trso.install(semantic=False)
        p5.replay(case)
    elif case.get("Z"):
        c03.replay(case)
    else:
        c01.replay(case)
