"""C10 — canonicalisation never changes what an expression means (DESIGN §4 C10)."""

from __future__ import annotations

import random

from .. import kernel, mon_dsl
from ..gen import exprs as ge

PROP = "C10"
RULE = (
    "cases = random well-scoped expression trees (depth<=4..5; plain/conditional/interventional/multi-world/"
    "population-tagged probabilities with value marks, raw nested products, sums incl. over-wide ranges, raw and "
    "compound fractions incl. equal numerator/denominator, One, Zero) built with the raw constructors, each "
    "canonicalised by the real canonicalize(e, ordering) with a random covering ordering (or None) and by "
    "Canonicalizer(ordering).canonicalize; plus the targeted tie / nested-fraction / repeated-factor cancellation classes; plus pairs (a, presentation-permutation of a) and (a, one semantic "
    "edit of a) through the real canonical_expr_equal. Post-conditions evaluate original and result under a free "
    "interpretation (mixture-of-products joint law over (population, name, world) random variables, exact "
    "rationals, 2 interpretations x all/48 value assignments). non-trivial = expression contains a Sum or a "
    "Fraction and its canonical form differs from it; distinct by exact constructor source."
)
ASSUMPTIONS = ["free interpretation of vmon/freeinterp.py with the reading conventions of DESIGN §3",
               "equality is exact; interpretations are sampled (2 per case)"]
MIN_NONTRIVIAL = {"quick": 800, "thorough": 20000}
REQUIRED = ["eval:canonicalize", "eval:canonical_expr_equal", "C10:meaning-equal", "C10:equal-claims-equal"]
TIMEOUT = {"quick": 900, "thorough": 7200}

OPTS = dict(marks=True, interventions=True, populations=True, constants=True, multiworld=True, overwide_sum=True,
            equal_fractions=True)


def ordering_for(expr, rng):
    from y0.dsl import Variable

    names = sorted({v.name for v in expr.get_variables()})
    r = rng.random()
    if r < 0.25:
        return None
    extra = [n for n in ge.NAMES if n not in names]
    if r < 0.5 and extra:
        names = names + rng.sample(extra, min(2, len(extra)))
    rng.shuffle(names)
    if r < 0.75:
        return [Variable(n) for n in names]
    return list(names)


def run_ast(ctx, ast, rng, mode="canonicalize"):
    from y0.mutate import canonicalize
    from y0.mutate.canonicalize_expr import Canonicalizer

    try:
        e = ge.build_raw(ast)
    except Exception:  # noqa: BLE001
        kernel.count("C10:unbuildable-ast")
        return None
    o = ordering_for(e, rng)
    kernel.LOG.reset_case({"expr": ge.to_src(e), "ordering": mon_dsl._ord(o), "mode": mode})
    res = None
    try:
        if mode == "canonicalize":
            res = canonicalize(e, o)
        else:
            from y0.dsl import ensure_ordering

            c = Canonicalizer(ensure_ordering(e, ordering=o))
            res = c.canonicalize(e)
            with kernel.quiet():
                mon_dsl.check_canonical(e, o, res, "Canonicalizer.canonicalize")
                kernel.count("eval:Canonicalizer.canonicalize")
    except Exception as ex:  # noqa: BLE001
        kernel.count(f"C10:driver-saw-{type(ex).__name__}")
    nt = res is not None and ge.ast_has(ast, {"sum", "frac"}) and res != e
    ctx.case(ge.to_src(e), nt, sample={"expr": str(e), "ordering": mon_dsl._ord(o), "canonical": str(res)})
    return e


def run_pair(ctx, a_ast, b_ast, kind):
    from y0.mutate import canonical_expr_equal

    try:
        a, b = ge.build_raw(a_ast), ge.build_raw(b_ast)
    except Exception:  # noqa: BLE001
        kernel.count("C10:unbuildable-ast")
        return
    kernel.LOG.reset_case({"left": ge.to_src(a), "right": ge.to_src(b), "kind": kind})
    try:
        verdict = canonical_expr_equal(a, b)
    except Exception as ex:  # noqa: BLE001
        kernel.count(f"C10:equal-raised-{type(ex).__name__}")
        return
    kernel.count(f"C10:pair-{kind}-{verdict}")
    ctx.case(ge.to_src(a) + "==" + ge.to_src(b), bool(verdict) and ge.ast_has(a_ast, {"sum", "frac", "prod"}),
             sample={"left": str(a), "right": str(b), "kind": kind, "declared_equal": bool(verdict)})


def run_shard(ctx):
    mon_dsl.install_canon()
    rng = ctx.rng
    n = ctx.share({"quick": 12000, "thorough": 200000}[ctx.tier])
    for i in range(n):
        ast = ge.rand_expr_ast(rng, OPTS, max_depth=4 if ctx.tier == "quick" else 5)
        run_ast(ctx, ast, rng, mode="canonicalize" if i % 5 else "Canonicalizer")
    # the tie / re-flattening / cancellation classes of C11's targeted generator, judged for meaning here
    from . import c11

    for i in range(ctx.share({"quick": 6000, "thorough": 100000}[ctx.tier])):
        run_ast(ctx, c11.targeted(rng), rng, mode="canonicalize" if i % 5 else "Canonicalizer")
    m = ctx.share({"quick": 6000, "thorough": 80000}[ctx.tier])
    for i in range(m):
        ast = ge.rand_expr_ast(rng, OPTS, max_depth=3)
        if i % 2:
            other, kind = ge.permute(ast, rng), "permutation"
        else:
            other, kind = ge.semantic_edit(ast, rng, ge.NAMES), "edit"
            if other is None:
                continue
        run_pair(ctx, ast, other, kind)


def replay(case):
    mon_dsl.install_canon()
    from y0.dsl import Variable
    from y0.mutate import canonical_expr_equal, canonicalize

    if "left" in case:
        canonical_expr_equal(ge.from_src(case["left"]), ge.from_src(case["right"]))
        return
    e = ge.from_src(case["expr"])
    o = case.get("ordering")
    canonicalize(e, [Variable(n) for n in o] if o is not None else None)


def install_for_suite():
    mon_dsl.CONFIG["idempotence"] = False
    mon_dsl.install_canon()
