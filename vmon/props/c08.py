"""C08 — IDC* estimands equal the conditional counterfactual probability (DESIGN §4 C08)."""

from __future__ import annotations

from .. import kernel, mon_cf, mon_dsep
from ..gen import events as gev
from ..gen import graphs as gg

PROP = "C08"
RULE = (
    "cases = (ADMG n<=4 (5 thorough), outcome conjunction of 1-2 counterfactual events, non-empty condition "
    "conjunction of 1-2 events with distinct keys; quotas for impossible conditions (X@+X: -X, a variable observed "
    "against its own setting) and for conditions valued '+') through the real idc_star. Post-condition: the "
    "returned expression (event values, literal subscripts with Sum-bound override, universal reading of unvalued "
    "free variables, existential reading of doubly valued names) must equal P(outcomes and conditions)/P(conditions) "
    "on every sampled functional SCM in which the conditions have positive probability (exact rationals); Zero is "
    "refuted by a model with P(joint)>0; a condition that the congruence-closure oracle PROVES impossible in every "
    "model (equal noise + equal parent values => equal value, to a fixpoint) must be rejected, not answered; every "
    "exception other than the refusal and the rejection is a violation. The rule-2 separation queries on the "
    "counterfactual graph are checked by the C04 monitor (record-only). non-trivial = a non-zero expression was "
    "returned; distinct by (graph, outcomes, conditions)."
)
ASSUMPTIONS = ["O1/O2 reading conventions of DESIGN §3", "O5 congruence closure for 'impossible in every model'",
               "sampled models, exact equality"]
MIN_NONTRIVIAL = {"quick": 250, "thorough": 5000}
REQUIRED = ["eval:idc_star", "C08:estimands-evaluated", "C08:estimands-correct", "C08:zero-answers", "C08:rejections",
            "C08:conditions-proved-impossible", "eval:cf_rule_2"]
TIMEOUT = {"quick": 900, "thorough": 7200}


def run_case(ctx, gd, out, cond, cls, g=None, cards=None):
    from y0.algorithm.identify import idc_star
    from y0.dsl import Zero

    g = gg.to_nx(gd) if g is None else g
    kernel.LOG.reset_case({"graph": gd, "outcomes": out, "conditions": cond, **({"cards": cards} if cards else {})})
    res = None
    try:
        res = idc_star(g, gev.to_event(out), gev.to_event(cond))
    except Exception:  # noqa: BLE001 -- judged by the monitor
        pass
    nt = res is not None and not isinstance(res, Zero)
    ctx.case(f"{gg.key(gd)}|{gev.key(out)}|{gev.key(cond)}", nt,
             sample={"graph": gd, "outcomes": gev.key(out), "conditions": gev.key(cond), "class": cls, "answer": str(res),
                     "rule2": mon_cf.FACTS.get("rule2")})


def split_event(rng, gd):
    ev, cls = gev.random_event(rng, gd, max_items=4)
    if cls == "contradictory_pair" or len(ev) < 2:
        ev2, _ = gev.random_event(rng, gd, cls="uniform", max_items=2)
        ev = ev + ev2
    seen, uniq = set(), []
    for c in ev:
        k = (c[0], tuple(map(tuple, c[1])))
        if k not in seen:
            seen.add(k)
            uniq.append(c)
    if len(uniq) < 2:
        return None
    rng.shuffle(uniq)
    k = rng.randint(1, min(2, len(uniq) - 1))
    return uniq[:k], uniq[k:k + 2], cls


def planted_three_worlds(rng, gd):
    """Three distinct worlds in one query, and a confounded pair U <-> V whose two ends sit in two of them: outcomes
    [U_a, K_a'] given [V_b] (the cross-world copy of the confounding edge decides whether rule 2 may exchange V_b).
    -> (graph with the edge planted, outcomes, conditions) or None"""
    nodes = sorted(gd["nodes"])
    if len(nodes) < 4:
        return None
    u, v, a, b = rng.sample(nodes, 4)
    bi = [list(e) for e in gd["bi"]]
    if [u, v] not in bi and [v, u] not in bi:
        bi.append([u, v])
    g2 = {"nodes": list(gd["nodes"]), "di": [list(e) for e in gd["di"]], "bi": bi, "hostile": "planted-three-worlds"}
    k = rng.choice([x for x in nodes if x not in (a,)])
    sa = rng.random() < 0.5
    out = [[u, [[a, sa]], rng.random() < 0.5]]
    third = [[a, not sa]] if rng.random() < 0.5 else [[a, sa], [b, rng.random() < 0.5]]
    if (k, tuple(map(tuple, third))) != (u, tuple(map(tuple, out[0][1]))):
        out.append([k, third, rng.random() < 0.5])
    cond = [[v, [[b, rng.random() < 0.5]], rng.random() < 0.5]]
    keys = {(c[0], tuple(map(tuple, c[1]))) for c in cond}
    out = [c for c in out if (c[0], tuple(map(tuple, c[1]))) not in keys]
    return (g2, out, cond) if out else None


def planted_three_relevant_worlds(rng):
    """a -> u, b -> v, j -> k, u <-> v (six nodes, names shuffled), query [u_a, k_j | v_b]: three worlds that each
    matter for one variable only; the confounded pair sits in two of them."""
    nm = gg.names(6, rng, unsorted=rng.random() < 0.3)
    rng.shuffle(nm)
    a, u, b, v, j, k = nm
    di = [[a, u], [b, v], [j, k]]
    if rng.random() < 0.3:
        di.append(rng.choice([[a, v], [b, u], [a, k], [j, u]]))
    gd = {"nodes": sorted(nm) if rng.random() < 0.5 else nm, "di": di, "bi": [[u, v]] + ([[k, a]] if rng.random() < 0.2 else []),
          "hostile": "planted-three-relevant-worlds"}
    val = lambda: rng.random() < 0.5  # noqa: E731
    out = [[u, [[a, val()]], val()], [k, [[j, val()]], val()]]
    cond = [[v, [[b, val()]], val()]]
    if rng.random() < 0.3:
        out, cond = [out[0]], cond + [out[1]]
    return gd, out, cond


TEMPLATES = [
    # (directed, bidirected, outcomes, conditions): letters are roles; every '-' is mapped to one polarity per variable
    ("BZ ZY AY", "ZY AY RY", ["Y@B", "R@AB"], ["B@B"]),                       # subscripts only on a merged non-event node
    ("BZ ZY AY", "ZY AY RY", ["Y@B"], ["R@AB"]),
    ("BC XC", "BM MX XD", ["C@BM"], ["M@BC", "X@B", "C@BX"]),                  # four worlds, equal copies on a diagonal
    ("EZ ZD DA DW", "ED AW", ["D@EW"], ["D@WZ", "Z@AW", "E@", "A@W"]),         # four worlds and the factual one
    ("BC XC", "BM MX XD", ["C@BM", "D@X"], ["X@B", "C@BX"]),
    # two worlds forcing one variable to one value, overlapping without being nested (a child of it in both)
    ("AE AZ", "AZ EZ", ["Z@AC", "E@AZ"], []),
    ("AE AZ", "AZ EZ", ["Z@AC"], ["E@AZ"]),
    ("XY WM", "", ["Y@XW", "Y@XM!"], []),                                       # ... with contradicting values: impossible
    # an observed parent that is also forced in a world with a further intervention; the outcome in both, contradicting
    ("XY ZY", "", ["X@", "Z@", "Y@XZ", "Y@!"], []),
    ("XY ZY", "", ["Y@XZ", "Y@!"], ["X@", "Z@"]),
]


def planted_template(rng):
    di_s, bi_s, outs, conds = rng.choice(TEMPLATES)
    letters = sorted({ch for part in (di_s + bi_s).split() for ch in part} | {ch for t in outs + conds for ch in t if ch.isalpha()})
    nm = gg.names(len(letters), rng, unsorted=rng.random() < 0.3)
    rng.shuffle(nm)
    name = dict(zip(letters, nm))
    # (all values at the reference polarity half of the time: several listed ID* mechanisms need a '+' somewhere, and a
    # defect that shows on an all-'-' query cannot hide behind them)
    minus_only = rng.random() < 0.5
    pol = {l: (False if minus_only else rng.random() < 0.5) for l in letters}
    di = [[name[e[0]], name[e[1]]] for e in di_s.split()]
    bi = [[name[e[0]], name[e[1]]] for e in bi_s.split()]
    gd = {"nodes": sorted(nm) if rng.random() < 0.5 else nm, "di": di, "bi": bi, "hostile": "planted-template"}

    def conj(t):
        flip = t.endswith("!")
        v, w = t.rstrip("!").split("@")
        return [name[v], [[name[x], pol[x]] for x in w], (not pol[v]) if flip else pol[v]]

    return gd, [conj(t) for t in outs], [conj(t) for t in conds]


def run_shard(ctx):
    gg.ALLOW_ODD = True  # node names that are not Python identifiers are node names like any other
    mon_cf.install_idcstar()
    mon_dsep.install()
    mon_cf.CONFIG.update(K={"quick": 2, "thorough": 3}[ctx.tier])
    rng = ctx.rng
    classes = {}
    for i in range(ctx.share({"quick": 20000, "thorough": 150000}[ctx.tier])):
        n = rng.choice([2, 3, 3, 4, 4, 4] + ([5] if ctx.tier == "thorough" else []))
        gd = gg.random_admg(rng, n)
        if i % 20 == 3:
            gd, out, cond = planted_template(rng)
            classes["planted_template"] = classes.get("planted_template", 0) + 1
            run_case(ctx, gd, out, cond, "planted_template")
            continue
        if i % 20 == 13:
            gd, out, cond = planted_three_relevant_worlds(rng)
            classes["planted_three_relevant_worlds"] = classes.get("planted_three_relevant_worlds", 0) + 1
            run_case(ctx, gd, out, cond, "planted_three_relevant_worlds")
            continue
        if i % 10 == 7:
            pl = planted_three_worlds(rng, gg.random_admg(rng, rng.choice([4, 4, 5])))
            if pl is None:
                continue
            gd, out, cond = pl
            classes["planted_three_worlds"] = classes.get("planted_three_worlds", 0) + 1
            run_case(ctx, gd, out, cond, "planted_three_worlds")
            continue
        sp = split_event(rng, gd)
        if sp is None:
            continue
        out, cond, cls = sp
        if i % 9 == 0:  # impossible conditions
            x = rng.choice(sorted(gd["nodes"]))
            s = rng.random() < 0.5
            cond = [[x, [[x, s]], not s]] if i % 2 else cond + [[x, [[x, s]], not s]]
            cls = "impossible_condition"
            keys = {(c[0], tuple(map(tuple, c[1]))) for c in cond}
            out = [c for c in out if (c[0], tuple(map(tuple, c[1]))) not in keys]
            if not out:
                continue
        classes[cls] = classes.get(cls, 0) + 1
        run_case(ctx, gd, out, cond, cls)
    for _ in range(ctx.share({"quick": 300, "thorough": 6000}[ctx.tier])):
        gd = gg.random_admg(rng, rng.choice([2, 3, 3, 4]))
        g = gg.to_nx(gd)
        for _s in range(5):
            for _q in range(2):
                sp = split_event(rng, gd)
                if sp is not None:
                    classes["history:" + sp[2]] = classes.get("history:" + sp[2], 0) + 1
                    run_case(ctx, gd, sp[0], sp[1], sp[2], g=g)
            if len(gd["nodes"]) < 5:
                gd = gg.edit_inplace(g, gd, rng)
    # wide graphs: the query lives on a small core, the padding nodes are constants in the exact models
    for i in range(ctx.share({"quick": 500, "thorough": 6000}[ctx.tier])):
        core = gg.random_admg(rng, rng.choice([2, 3, 3, 4]))
        sp = split_event(rng, core)
        if sp is None:
            continue
        total = 64 if i % 12 == 0 else rng.randint(10, 14)
        gd, pad = gg.embed_wide(core, rng, total, **({"p_di": 0.02, "p_bi": 0.01} if total == 64 else {}))
        classes["wide:" + sp[2]] = classes.get("wide:" + sp[2], 0) + 1
        run_case(ctx, gd, sp[0], sp[1], sp[2], cards={w: 1 for w in pad})
    ctx.extras["event_classes"] = classes


def replay(case):
    mon_cf.install_idcstar()
    mon_dsep.install()
    mon_cf.CONFIG.update(K=4)

    class _C:
        def case(self, *a, **k):
            pass

    gd = case["graph"]
    gd = {"nodes": gd["nodes"], "di": gd["di"], "bi": gd["bi"]}
    f = lambda ev: [[c[0], [list(w) for w in c[1]], c[2]] for c in ev]  # noqa: E731
    run_case(_C(), gd, f(case["outcomes"]), f(case["conditions"]), "replay", cards=case.get("cards"))


def install_for_suite():
    mon_cf.install_idcstar()
