"""C15 — implied conditional independencies are enumerated exactly (DESIGN §4 C15)."""

from __future__ import annotations

import itertools as itt

from .. import kernel, mon_dsep
from ..gen import graphs as gg
from ..refgraph import RG

PROP = "C15"
RULE = (
    "cases = (ADMG, size limit k in {None,0,1,2,3,...}, retention policy in {default topological, length-then-"
    "lexicographic}, return_all on/off) through the real get_conditional_independencies; EXHAUSTIVE over all "
    "labelled ADMGs on <=3 nodes (quick) / <=4 nodes (thorough) x all those configurations, plus random hostile "
    "ADMGs n=5..6 in two insertion orders. Post-condition compares the whole returned set with the reference's "
    "per-pair minimum-separator table (Bayes-ball m-separation on the latent DAG, conditioning sets enumerated by "
    "increasing size up to k): exactly one judgement per separable pair, none for any other pair, every listed "
    "judgement a true separation, canonical, of minimum size. 'Size limit k' is read as |C| <= k (the docstring's "
    "'longest set of conditions to investigate'). non-trivial = the graph has >=3 nodes and at least one pair is "
    "separable only by a non-empty set; distinct by (graph, k, policy, return_all). Plus d_separations(return_all=True) on "
    "random ADMGs n=3..5: the yielded judgements must be exactly ALL separating (pair, C) with |C| <= k, each once."
)
ASSUMPTIONS = ["O3 (vmon/refgraph.py) Bayes-ball m-separation as the definition of separation",
               "k is an inclusive bound on the size of the conditioning set"]
MIN_NONTRIVIAL = {"quick": 300, "thorough": 20000}
REQUIRED = ["eval:get_conditional_independencies", "C15:sets-compared", "C15:all-separations-compared"]
EXHAUSTIVE = {"quick": "all labelled ADMGs on <=3 nodes x k in {None,0,1,2} x 2 policies x return_all on/off",
              "thorough": "all labelled ADMGs on <=4 nodes x k in {None,0,1,2,3} x 2 policies x return_all on/off"}
TIMEOUT = {"quick": 900, "thorough": 7200}

_tables: dict = {}


def min_separators(ref: RG, k):
    """{frozenset({a,b}): minimum size of a separating set with |C| <= k}  (pairs that cannot be
    separated within the limit are absent)."""
    key = (ref, k)
    hit = _tables.get(key)
    if hit is not None:
        return hit
    V = sorted(ref.V, key=str)
    out = {}
    top = len(V) - 2 if k is None else min(k, len(V) - 2)
    for a, b in itt.combinations(V, 2):
        rest = [v for v in V if v not in (a, b)]
        found = None
        for s in range(0, top + 1):
            for C in itt.combinations(rest, s):
                if b not in ref.m_connected_set(a, set(C)):
                    found = s
                    break
            if found is not None:
                break
        if found is not None:
            out[frozenset((a, b))] = found
    if len(_tables) > 2000:
        _tables.clear()
    _tables[key] = out
    return out


def _post(snap, res, graph, *, policy=None, max_conditions=None, **kwargs):
    ref = RG.from_nx(graph)
    if not ref.is_acyclic():
        return
    k = max_conditions
    case = {"graph": mon_dsep._gd(ref), "k": k, "policy": getattr(policy, "__name__", None) if policy else None,
            "kwargs": {a: b for a, b in kwargs.items() if a == "return_all"}}
    want = min_separators(ref, k)
    kernel.count("C15:sets-compared")
    got_pairs = {}
    problems = []
    mech = None
    for j in res:
        pair = frozenset((j.left, j.right))
        if pair in got_pairs:
            problems.append(f"two judgements for the pair {sorted(map(str, pair))}")
        got_pairs[pair] = j
        C = set(j.conditions)
        canonical = (bool(j.separated) and str(j.left) < str(j.right) and isinstance(j.conditions, tuple)
                     and list(j.conditions) == sorted(set(j.conditions), key=str))
        plain = all(type(v).__name__ == "Variable" for v in (j.left, j.right, *j.conditions))
        if plain:
            try:
                canonical = canonical and bool(j.is_canonical)  # the library's own predicate must agree
            except Exception:  # noqa: BLE001
                canonical = False
        if not canonical:
            problems.append(f"judgement {j!r} is not in canonical form")
        if j.left == j.right or j.left in C or j.right in C or not C <= set(ref.V):
            problems.append(f"judgement {j!r} is malformed")
            continue
        if j.right in ref.m_connected_set(j.left, C):
            problems.append(f"listed judgement {j.left} _||_ {j.right} | {sorted(map(str, C))} is not a separation")
        if k is not None and len(C) > k:
            problems.append(f"judgement {j!r} uses {len(C)} conditions, limit {k}")
        if pair in want and len(C) != want[pair]:
            problems.append(f"judgement for {sorted(map(str, pair))} uses {len(C)} conditions, minimum is {want[pair]}")
    missing = [p for p in want if p not in got_pairs]
    extra = [p for p in got_pairs if p not in want]
    if missing:
        problems.append(f"no judgement for separable pair(s) {[sorted(map(str, p)) for p in missing[:4]]} "
                        f"(minimum separator sizes {[want[p] for p in missing[:4]]})")
        if k is not None and all(want[p] == k for p in missing) and not extra and len(problems) == 1:
            mech = "limit-off-by-one"
    if extra:
        problems.append(f"judgement(s) for pair(s) that cannot be separated within the limit: "
                        f"{[sorted(map(str, p)) for p in extra[:4]]}")
    if problems:
        kernel.violation(PROP, "exact-enumeration",
                         f"get_conditional_independencies(k={k}) on {case['graph']}: " + "; ".join(problems[:4]),
                         case=case, mech=mech)


def install():
    import y0.algorithm.conditional_independencies as ci

    kernel.install_function(ci, "get_conditional_independencies", label="get_conditional_independencies", post=_post)


def run_case(ctx, gd, k, pol, return_all):
    from y0.algorithm.conditional_independencies import _len_lex, get_conditional_independencies

    g = gg.to_nx(gd)
    kernel.LOG.reset_case({"graph": gd, "k": k, "policy": pol, "return_all": return_all})
    kw = {}
    if pol == "len_lex":
        kw["policy"] = _len_lex
    if return_all:
        kw["return_all"] = True
    res = None
    try:
        res = get_conditional_independencies(g, max_conditions=k, **kw)
    except Exception as e:  # noqa: BLE001
        kernel.violation(PROP, "total", f"get_conditional_independencies raised {type(e).__name__}: {e} on {gd}",
                         case=kernel.LOG.case)
    nt = False
    if res is not None and len(gd["nodes"]) >= 3:
        nt = any(len(j.conditions) > 0 for j in res)
    shown = sorted(f"{j.left} _||_ {j.right} | {','.join(map(str, j.conditions))}" for j in res or [])
    if res is not None and sum(map(ord, gg.key(gd))) % 5 == 2:
        # the caller empties the set it was handed and asks again (same graph object): a memo must not hand out its own set
        try:
            res.clear()
        except AttributeError:
            pass
        kernel.count("C15:asked-again-after-editing-the-first-answer")
        try:
            get_conditional_independencies(g, max_conditions=k, **kw)
        except Exception:  # noqa: BLE001
            kernel.count("C15:second-call-raised")
        res = None
    ctx.case(f"{gg.key(gd)}|{k}|{pol}|{return_all}", nt,
             sample={"graph": gd, "k": k, "policy": pol, "return_all": return_all,
                     "independencies": shown})


def run_all_separations(ctx, gd, k):
    """d_separations(return_all=True) is the enumerator's raw material: it must yield EVERY separating (pair, C) with
    |C| <= k exactly once and nothing else (driver-side comparison: the function is a generator)."""
    from y0.algorithm.conditional_independencies import d_separations

    g = gg.to_nx(gd)
    ref = RG.from_nx(g)
    kernel.LOG.reset_case({"graph": gd, "k": k, "all": True})
    try:
        got = list(d_separations(g, max_conditions=k, return_all=True))
    except Exception as e:  # noqa: BLE001
        kernel.violation(PROP, "total", f"d_separations(return_all=True) raised {type(e).__name__}: {e} on {gd}",
                         case=kernel.LOG.case)
        return
    V = sorted(ref.V, key=str)
    top = len(V) - 2 if k is None else min(k, len(V) - 2)
    want = set()
    for a, b in itt.combinations(V, 2):
        rest = [v for v in V if v not in (a, b)]
        for sz in range(0, top + 1):
            for C in itt.combinations(rest, sz):
                if b not in ref.m_connected_set(a, set(C)):
                    want.add((frozenset((a, b)), frozenset(C)))
    seen = [(frozenset((j.left, j.right)), frozenset(j.conditions)) for j in got]
    kernel.count("C15:all-separations-compared")
    problems = []
    if len(seen) != len(set(seen)):
        problems.append("a separation is listed twice")
    miss, extra = want - set(seen), set(seen) - want
    if miss:
        p_, c_ = sorted(miss, key=str)[0]
        problems.append(f"{len(miss)} separation(s) missing, e.g. {sorted(map(str, p_))} given {sorted(map(str, c_))}")
    if extra:
        p_, c_ = sorted(extra, key=str)[0]
        problems.append(f"{len(extra)} listed judgement(s) are not separations within the limit, e.g. {sorted(map(str, p_))} "
                        f"given {sorted(map(str, c_))}")
    if any(not j.separated for j in got):
        problems.append("a judgement with separated=False was yielded")
    if problems:
        kernel.violation(PROP, "all-separations", f"d_separations(k={k}, return_all=True) on {gd}: " + "; ".join(problems),
                         case=kernel.LOG.case)
    ctx.case(f"{gg.key(gd)}|{k}|all", len(gd["nodes"]) >= 3 and any(c for _, c in want),
             sample={"graph": gd, "k": k, "separations": len(want)})


def two_separator_graph(rng):
    """>= 9 nodes: a pair (A, B) with a LARGE separator early in the topological order (the common parents P*) and a
    SMALL one late (the mediators Q*), plus bystanders - the retention policy has a real choice to make (with 3 parents,
    2 mediators and the bystanders as further roots the small separator's positions add up to more than the big one's
    plus the node count)."""
    m, q = rng.choice([(3, 2), (3, 2), (3, 2), (4, 3), (2, 1), (4, 2)])
    P_ = [f"P{i}" for i in range(m)]
    Q_ = [f"Q{i + m + 2}" for i in range(q)]
    di = [[p, "A"] for p in P_] + [[p, x] for p in P_ for x in Q_] + [[x, "B"] for x in Q_]
    core = P_ + ["A"] + Q_ + ["B"]
    by = [f"F{i}" for i in range(max(0, rng.randint(9, 10) - len(core)))]
    bi = []
    rooted = rng.random() < 0.7
    for a, b in zip(by, by[1:]):
        (bi if rooted or rng.random() < 0.5 else di).append([a, b])
    if rng.random() < 0.7:
        nodes = P_ + by + ["A"] + Q_ + ["B"]
    else:
        nodes = core + by
        rng.shuffle(nodes)
    return {"nodes": nodes, "di": di, "bi": bi, "hostile": "two-separators"}


def run_shard(ctx):
    gg.ALLOW_ODD = True  # node names that are not Python identifiers are node names like any other
    install()
    mon_dsep.install()
    rng = ctx.rng
    ns = (2, 3) if ctx.tier == "quick" else (2, 3, 4)
    ks = (None, 0, 1, 2) if ctx.tier == "quick" else (None, 0, 1, 2, 3)
    idx = 0
    for n in ns:
        for gd in gg.all_admgs(n):
            idx += 1
            if not ctx.mine(idx):
                continue
            for k in ks:
                for pol in ("default", "len_lex"):
                    for ra in (False, True):
                        if n == 4 and (ra and pol == "len_lex"):
                            continue
                        run_case(ctx, gd, k, pol, ra)
    if ctx.tier == "quick":  # a sample of the 4-node scope
        idx = 0
        for gd in gg.all_admgs(4):
            idx += 1
            if idx % 40 == 0 and ctx.mine(idx // 40):
                run_case(ctx, gd, rng.choice([None, 0, 0, 1, 2]), rng.choice(["default", "len_lex"]), rng.random() < 0.3)
    for i in range(ctx.share({"quick": 1200, "thorough": 12000}[ctx.tier])):
        n = rng.choice([5, 5, 6])
        gd = gg.random_admg(rng, n, p_di=rng.choice([0.2, 0.35, 0.5]), p_bi=rng.choice([0.1, 0.2, 0.35]))
        k = rng.choice([None, 0, 0, 1, 2, 3, 4])
        pol = rng.choice(["default", "len_lex"])
        run_case(ctx, gd, k, pol, rng.random() < 0.3)
        if i % 4 == 0:
            run_case(ctx, gg.permuted(gd, rng), k, pol, False)
    for i in range(ctx.share({"quick": 600, "thorough": 10000}[ctx.tier])):
        gd = gg.random_admg(rng, rng.choice([3, 4, 4, 5]))
        run_all_separations(ctx, gd, rng.choice([None, 0, 1, 2, 3]))
    # graphs over counterfactual variables in two worlds: every name occurs twice (A@+x, A@-x)
    for i in range(ctx.share({"quick": 300, "thorough": 5000}[ctx.tier])):
        gd = gg.two_cf_worlds(gg.random_admg(rng, rng.randint(2, 4)), rng)
        run_case(ctx, gd, rng.choice([None, 0, 1, 2]), rng.choice(["default", "len_lex"]), rng.random() < 0.3)
    # 9-10 nodes, return_all on: the policy chooses among several separators of different sizes
    for i in range(ctx.share({"quick": 48, "thorough": 800}[ctx.tier])):
        gd = two_separator_graph(rng) if i % 3 else gg.random_admg(rng, 9, p_di=0.2, p_bi=0.1)
        run_case(ctx, gd, rng.choice([None, 2, 3, 4]), rng.choice(["default", "default", "len_lex"]), True)


def replay(case):
    install()

    class _C:
        def case(self, *a, **k):
            pass

    gd = case["graph"]
    gd = {"nodes": gd["nodes"], "di": gd["di"], "bi": gd["bi"]}
    if case.get("all"):
        run_all_separations(_C(), gd, case.get("k"))
        return
    ra = case.get("return_all", (case.get("kwargs") or {}).get("return_all", False))
    pol = case.get("policy") or "default"
    run_case(_C(), gd, case.get("k"), "len_lex" if "len_lex" in str(pol) else "default", bool(ra))


def install_for_suite():
    install()
