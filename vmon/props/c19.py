"""C19 — counterfactual event simplification and factorisation preserve probability (DESIGN §4 C19)."""

from __future__ import annotations

from .. import kernel, mon_cf, mon_ctf
from ..gen import events as gev
from ..gen import graphs as gg
from ..gen.queries import ancestors

PROP = "C19"
RULE = (
    "cases = (ADMG n<=5 with isolated nodes, bidirected edges leaving the ancestral sets, unsorted names; "
    "counterfactual variables with 0-3 subscripts incl. all-irrelevant, partly irrelevant, reflexive, mixed "
    "polarities; events of 1-4 conjuncts incl. repeated variables, None values where the API allows them; root / "
    "conditioned variable sets) through the real minimize_counterfactual, simplify, get_ancestors_of_counterfactual, "
    "get_ancestral_components and do_counterfactual_factor_factorization. Post-conditions: (a) the minimised "
    "variable is well formed, has exactly the subscripts x ∩ An(Y) in G with edges into X removed, and equals the "
    "original AS A RANDOM VARIABLE (value arrays over the whole exogenous-noise grid of K exact random SCMs); (b) "
    "SIMPLIFY keeps the probability, 'impossible' is refuted by a positive-probability witness model, no exception; "
    "(c) ancestors == Definition 2.1; (d) ancestral components == Definition 4.2 (reference set algebra); (e) the "
    "factorised sum-product, read existentially over subscript conventions, equals P(query) on K models. "
    "non-trivial = a subscript was dropped / two ancestral sets were merged / >=2 ctf-factors / a conjunct removed; "
    "distinct by (operation, graph, input)."
)
ASSUMPTIONS = ["O1 multi-world evaluation, O3 set algebra for Definitions 2.1 and 4.2 (Correa, Lee, Bareinboim 2022)",
               "a None-valued conjunct is read as 'no constraint'"]
MIN_NONTRIVIAL = {"quick": 600, "thorough": 12000}
REQUIRED = ["eval:minimize_counterfactual", "eval:simplify", "eval:get_ancestors_of_counterfactual",
            "eval:get_ancestral_components", "eval:do_counterfactual_factor_factorization", "C19:minimize:models-compared",
            "C19:minimize:subscripts-dropped", "C19:simplify:probabilities-compared", "C19:simplify:impossible-verdicts",
            "C19:ancestors:checked", "C19:components:checked", "C19:components:merged-sets", "C19:expressions-correct",
            "C19:factorization:with-two-or-more-factors"]
TIMEOUT = {"quick": 900, "thorough": 7200}


def random_cfvar(rng, gd, cls=None):
    nodes = sorted(gd["nodes"])
    y = rng.choice(nodes)
    cls = cls or rng.choice(["none", "relevant", "irrelevant", "mixed", "reflexive", "many"])
    an = [v for v in ancestors(gd, [y]) if v != y]
    non = [v for v in nodes if v not in ancestors(gd, [y])]
    sub = []
    if cls == "relevant" and an:
        sub = rng.sample(an, min(len(an), rng.randint(1, 2)))
    elif cls == "irrelevant" and non:
        sub = rng.sample(non, min(len(non), rng.randint(1, 2)))
    elif cls == "mixed" and an and non:
        sub = [rng.choice(an), rng.choice(non)]
    elif cls == "reflexive":
        sub = [y] + ([rng.choice(an)] if an and rng.random() < 0.4 else [])
    elif cls == "many":
        others = [v for v in nodes if v != y]
        sub = rng.sample(others, min(len(others), 3))
    world = sorted([s, rng.random() < 0.35] for s in sub)
    return [y, world], cls


def _spoil(res):
    """The caller does what it likes with a result it was handed (here: empties every mutable container in it)."""
    if isinstance(res, (set, list, dict)):
        res.clear()
    elif isinstance(res, tuple):
        for x in res:
            _spoil(x)


def _again(rng, gd, g, res, call):
    """Ask the same question again after the caller has edited the first answer - on the same graph object or on an
    equal new one; the monitors judge the second call like any other (a memo must not hand out its own objects)."""
    if res is None or res == "!" or rng.random() > 0.35:
        return
    _spoil(res)
    kernel.count("C19:asked-again-after-editing-the-first-answer")
    try:
        call(g if rng.random() < 0.5 else gg.to_nx(gd))
    except Exception:  # noqa: BLE001 -- judged by the monitors
        pass


def run_case(ctx, gd, rng, i, core=None, cards=None):
    from y0.algorithm.counterfactual_transport.ancestor_utils import (get_ancestors_of_counterfactual,
                                                                       get_ancestral_components, minimize_counterfactual)
    from y0.algorithm.counterfactual_transport.api import do_counterfactual_factor_factorization, simplify

    g = gg.to_nx(gd)
    gk = gg.key(gd)[:300]
    op = i % 5
    c = kernel.LOG.counters
    src = core or gd  # variables and events are drawn from the core of a wide graph (its padding nodes are constants)
    extra = {"cards": cards} if cards else {}
    if op in (0, 1):
        (name, world), cls = random_cfvar(rng, src)
        var = gev.var_of([name, world, None])
        kernel.LOG.reset_case({"graph": gd, "variable": [name, world, None], "op": "minimize" if op == 0 else "ancestors", **extra})
        n0 = c.get("C19:minimize:subscripts-dropped", 0)
        res = None
        try:
            res = minimize_counterfactual(var, g) if op == 0 else get_ancestors_of_counterfactual(var, g)
        except Exception:  # noqa: BLE001 -- judged by the monitors
            pass
        nt = (c.get("C19:minimize:subscripts-dropped", 0) > n0) if op == 0 else bool(world)
        shown = str(res) if op == 0 else sorted(map(str, res or []))
        if op == 1:
            _again(rng, gd, g, res, lambda g2: get_ancestors_of_counterfactual(var, g2))
            res = shown
        ctx.case(f"{'min' if op == 0 else 'anc'}|{gk}|{name}|{world}", nt,
                 sample={"op": "minimize" if op == 0 else "ancestors", "graph": gd, "variable": str(var), "class": cls,
                         "result": shown})
    elif op == 2:
        ev, cls = gev.random_event(rng, src, max_items=4)
        if not ev:
            return
        if rng.random() < 0.15:
            ev = [[c0, w, None] if rng.random() < 0.3 else [c0, w, v] for c0, w, v in ev]
        kernel.LOG.reset_case({"graph": gd, "event": ev, "op": "simplify", **extra})
        n0 = c.get("C19:simplify:conjuncts-removed", 0)
        res = "!"
        try:
            res = simplify(event=[(gev.var_of(x), (None if x[2] is None else gev.to_pairs([x])[0][1])) for x in ev], graph=g)
        except Exception:  # noqa: BLE001
            pass
        ctx.case(f"simp|{gk}|{gev.key([x for x in ev if x[2] is not None])}|{sum(x[2] is None for x in ev)}",
                 c.get("C19:simplify:conjuncts-removed", 0) > n0 or res is None,
                 sample={"op": "simplify", "graph": gd, "event": gev.key([x for x in ev if x[2] is not None]), "class": cls,
                         "result": None if res is None else (res if res == "!" else gev.key([x for x in gev.from_event(res) if x[2] is not None]))})
        _again(rng, gd, g, res, lambda g2: simplify(
            event=[(gev.var_of(x), (None if x[2] is None else gev.to_pairs([x])[0][1])) for x in ev], graph=g2))
    elif op == 3:
        roots = []
        for _ in range(rng.randint(1, 3)):
            roots.append(random_cfvar(rng, src, rng.choice(["none", "relevant", "relevant", "mixed"]))[0])
        cond = []
        for _ in range(rng.randint(0, 2)):
            cv = random_cfvar(rng, src, rng.choice(["none", "relevant", "irrelevant"]))[0]
            cond.append(cv)
            if rng.random() < 0.6:
                roots.append(cv)  # conditioned variables are part of W* in Definition 4.2
        roots = [list(x) for x in {(r[0], tuple(map(tuple, r[1]))) for r in roots}]
        roots = [[r[0], [list(w) for w in r[1]]] for r in roots]
        kernel.LOG.reset_case({"graph": gd, "conditioned": cond, "roots": roots, "op": "components", **extra})
        n0 = c.get("C19:components:merged-sets", 0)
        res = None
        try:
            res = get_ancestral_components(conditioned_variables={gev.var_of([n, w, None]) for n, w in cond},
                                           root_variables={gev.var_of([n, w, None]) for n, w in roots}, graph=g)
        except Exception as e:  # noqa: BLE001
            kernel.count(f"C19:components:raised-{type(e).__name__}")
        ctx.case(f"comp|{gk}|{sorted(map(str, cond))}|{sorted(map(str, roots))}", c.get("C19:components:merged-sets", 0) > n0,
                 sample={"op": "components", "graph": gd, "conditioned": cond, "roots": roots,
                         "result": sorted(sorted(map(str, s)) for s in res) if res is not None else None})
    else:
        ev, cls = gev.random_event(rng, src, max_items=3)
        if not ev or cls == "contradictory_pair":
            return
        kernel.LOG.reset_case({"graph": gd, "event": ev, "op": "factorization", **extra})
        n0 = c.get("C19:factorization:with-two-or-more-factors", 0)
        res = None
        try:
            res = do_counterfactual_factor_factorization(variables=gev.to_pairs(ev), graph=g)
        except Exception:  # noqa: BLE001
            pass
        ctx.case(f"fact|{gk}|{gev.key(ev)}", c.get("C19:factorization:with-two-or-more-factors", 0) > n0,
                 sample={"op": "factorization", "graph": gd, "event": gev.key(ev), "class": cls,
                         "result": str(res[0]) if res else None})
        _again(rng, gd, g, res, lambda g2: do_counterfactual_factor_factorization(variables=gev.to_pairs(ev), graph=g2))


def run_shard(ctx):
    gg.ALLOW_ODD = True  # node names that are not Python identifiers are node names like any other
    gg.ALLOW_PREFIXED = False  # a name T_x is a selection node for the transport algorithms
    mon_ctf.install_blocks()
    mon_ctf.CONFIG.update(K={"quick": 2, "thorough": 3}[ctx.tier])
    mon_cf.CONFIG.update(K={"quick": 2, "thorough": 3}[ctx.tier])
    rng = ctx.rng
    for i in range(ctx.share({"quick": 40000, "thorough": 300000}[ctx.tier])):
        n = rng.choice([2, 3, 4, 4, 5] if i % 5 != 4 else [2, 3, 3, 4, 4])
        gd = gg.random_admg(rng, n, hostile=rng.choice(gg.HOSTILE + ("isolated", "bichain")))
        run_case(ctx, gd, rng, i)
    # wide graphs: variables and events on a small core, 10..14 (sometimes 64) nodes in the graph
    for i in range(ctx.share({"quick": 3000, "thorough": 30000}[ctx.tier])):
        core = gg.random_admg(rng, rng.choice([2, 3, 3, 4]), hostile=rng.choice(gg.HOSTILE + ("isolated", "bichain")))
        total = 64 if i % 15 == 0 else rng.randint(10, 14)
        gd, pad = gg.embed_wide(core, rng, total, **({"p_di": 0.02, "p_bi": 0.01} if total == 64 else {}))
        run_case(ctx, gd, rng, i, core=core, cards={w: 1 for w in pad})


def replay(case):
    import random

    mon_ctf.install_blocks()
    mon_ctf.CONFIG.update(K=4)
    mon_cf.CONFIG.update(K=4)
    from y0.algorithm.counterfactual_transport.ancestor_utils import (get_ancestors_of_counterfactual,
                                                                       get_ancestral_components, minimize_counterfactual)
    from y0.algorithm.counterfactual_transport.api import do_counterfactual_factor_factorization, simplify

    gd = case["graph"]
    gd = {"nodes": gd["nodes"], "di": gd["di"], "bi": gd["bi"]}
    g = gg.to_nx(gd)
    kernel.LOG.reset_case(case)
    op = case.get("op")
    try:
        if op in ("minimize", "ancestors"):
            n, w, _ = case["variable"]
            var = gev.var_of([n, w, None])
            (minimize_counterfactual if op == "minimize" else get_ancestors_of_counterfactual)(var, g)
        elif op == "simplify":
            ev = case["event"]
            simplify(event=[(gev.var_of(x), (None if x[2] is None else gev.to_pairs([x])[0][1])) for x in ev], graph=g)
        elif op == "components":
            get_ancestral_components(conditioned_variables={gev.var_of([n, w, None]) for n, w in case["conditioned"]},
                                     root_variables={gev.var_of([n, w, None]) for n, w in case["roots"]}, graph=g)
        elif op == "factorization":
            do_counterfactual_factor_factorization(variables=gev.to_pairs(case["event"]), graph=g)
    except Exception:  # noqa: BLE001
        pass


def install_for_suite():
    mon_ctf.install_blocks()
