"""C09 — counterfactual transport (ctfTRu / ctfTR) answers are correct (DESIGN §4 C09)."""

from __future__ import annotations

from .. import kernel, mon_cf, mon_ctf
from ..gen import events as gev
from ..gen import graphs as gg
from ..refgraph import RG
from . import c08, c17

PROP = "C09"
RULE = (
    "cases = (target ADMG n<=4 (5 thorough), 1-3 domains each = the target graph minus the edges into / bidirected "
    "edges at 0-1 policy variables, plus transport nodes T_v at 0-2 random nodes, a random valid topological order "
    "and the joint PP[pi_k](V); optionally the target itself as a domain; events of 1-3 conjuncts incl. irrelevant "
    "and reflexive subscripts, isolated nodes, repeated variables; for the conditional procedure 1-2 conditions) "
    "through the real transport_unconditional_counterfactual_query / transport_conditional_counterfactual_query. "
    "The monitor first calls y0's own _validate_..._input separately (inputs it rejects are counted, not judged); "
    "then: anything raised is a violation; an answer (expression, event) is evaluated on a FAMILY of exact random "
    "SCMs (target + per domain a copy re-drawn at its transport nodes whose policy variables get a parent-free "
    "mechanism; PP[pi_k](..) = observational law of domain k) with the returned event's values (a name given two "
    "values is read existentially) and must equal the target-domain (conditional) probability of the QUERIED "
    "event; Zero is refuted by a witness family. non-trivial = a non-zero answer that uses a source-domain term or "
    "has >=2 factors; distinct by (graph, domains, query)."
)
ASSUMPTIONS = ["O1 multi-world / multi-domain evaluation; the domain-graph convention of Correa, Lee, Bareinboim 2022 "
               "(policy variables lose their incoming and bidirected edges)", "sampled families, exact equality"]
MIN_NONTRIVIAL = {"quick": 120, "thorough": 2500}
REQUIRED = ["eval:ctfTRu", "eval:ctfTR", "eval:sigma_TR", "C09:answers", "C09:expressions-correct", "C09:fail-answers",
            "C09:answers-using-a-source-domain", "C09:zero-answers"]
TIMEOUT = {"quick": 900, "thorough": 7200}


def random_domains(rng, gd):
    nodes = sorted(gd["nodes"])
    k = rng.choice([1, 1, 2, 2, 3])
    doms = []
    star_at = rng.randrange(k) if rng.random() < 0.3 else None  # at most one entry tagged pi*, anywhere in the list
    for i in range(k):
        if i == star_at:
            # the target population's own data: observational, or an experiment run there (non-empty policy set)
            zs = rng.sample(nodes, min(len(nodes), rng.choice([1, 1, 2]))) if rng.random() < 0.4 else []
            doms.append({"population": "pi*", "transport": [], "policy": sorted(zs)})
            continue
        t = rng.sample(nodes, rng.choice([0, 1, 1, 2]) if len(nodes) >= 2 else rng.choice([0, 1]))
        # policy sets of size 0..3 (several policy variables in one domain: each one alone can spoil a district)
        z = rng.sample(nodes, min(len(nodes), rng.choice([1, 1, 2, 2, 3]))) if rng.random() < 0.35 else []
        doms.append({"population": f"π{i + 1}", "transport": sorted(t), "policy": sorted(z)})
    return doms


def build_domain(gd, d, rng):
    from y0.dsl import PP, Variable
    from y0.graph import NxMixedGraph

    Z = set(d["policy"])
    g = NxMixedGraph()
    ins = list(gd["nodes"])
    for n in ins:
        g.add_node(Variable(n))
    for u, v in gd["di"]:
        if v not in Z:
            g.add_directed_edge(Variable(u), Variable(v))
    for u, v in gd["bi"]:
        if u not in Z and v not in Z:
            g.add_undirected_edge(Variable(u), Variable(v))
    for u, v in d.get("added") or []:
        # a policy may make its variable depend on variables it did not depend on before (sigma_Z = f(W))
        g.add_directed_edge(Variable(u), Variable(v))
    for t in d["transport"]:
        g.add_directed_edge(Variable("T_" + t), Variable(t))
    topo = c17.random_topo(RG.from_nx(g), rng)
    if d.get("topo"):
        # a recorded case names the topological order the domain was given (the answer may depend on it)
        topo = [Variable(n) for n in d["topo"]]
    pop = Variable(d["population"])
    zs = [Variable(z) for z in sorted(Z)]
    form = sum(map(ord, "".join(sorted(Z)) + d["population"])) % 3  # the collection the policy variables come in
    zcol = set(zs) if form == 0 else (zs if form == 1 else zs[::-1])
    return (g, topo), (zcol, PP[pop]([Variable(n) for n in sorted(gd["nodes"])]))


def with_policy_edges(rng, gd, doms):
    """Some policies get new parents: an edge W -> Z for a policy variable Z and a non-descendant W of Z in that domain's
    graph (the domain graph stays acyclic; such domains are outside the convention the exact families cover, so only
    the totality of the call is judged for them)."""
    out = []
    ref = RG.make(gd["nodes"], [tuple(e) for e in gd["di"]], [])
    for d in doms:
        d = dict(d)
        if d["policy"] and rng.random() < 0.5:
            z = rng.choice(d["policy"])
            desc = {str(v) for v in ref.descendants_inclusive({z})}
            cand = [w for w in gd["nodes"] if w not in desc and w not in d["policy"]]
            if cand:
                d["added"] = [[rng.choice(cand), z]]
        out.append(d)
    return out


def run_case(ctx, gd, doms, out, cond, rng, wrapper=0, cards=None):
    from y0.algorithm.counterfactual_transport.api import (transport_conditional_counterfactual_query,
                                                           transport_unconditional_counterfactual_query)
    from y0.dsl import Zero

    g = gg.to_nx(gd)
    built = [build_domain(gd, d, rng) for d in doms]
    dgs, dd = [b[0] for b in built], [b[1] for b in built]
    via = "wrapper" if wrapper else "direct"
    kernel.LOG.reset_case({"graph": gd, "domains": doms, "outcomes": out, "conditions": cond, "via": via,
                           **({"cards": cards} if cards else {})})
    res = "!"
    try:
        if wrapper:
            # the CFTDomain / valued-variable call form (unconditional_cft, conditional_cft)
            from y0.algorithm.counterfactual_transport.api import CFTDomain, conditional_cft, unconditional_cft
            from y0.dsl import CounterfactualVariable, Variable

            def valued(x):
                v = gev.var_of(x)
                star = None if x[2] is None else bool(x[2])
                if isinstance(v, CounterfactualVariable):
                    return CounterfactualVariable(name=v.name, star=star, interventions=v.interventions)
                return Variable(v.name, star=star)

            # do the same arguments pass y0's own validation in the direct (tuple) form?  Then the wrapper must not fail
            import y0.algorithm.counterfactual_transport.api as _api

            try:
                with kernel.quiet():
                    if cond:
                        _v = _api._validate_transport_conditional_counterfactual_query_input
                        getattr(_v, "__vmon_original__", _v)(outcomes=gev.to_pairs(out), conditions=gev.to_pairs(cond),
                                                             target_domain_graph=g, domain_graphs=dgs, domain_data=dd)
                    else:
                        _v = _api._validate_transport_unconditional_counterfactual_query_input
                        getattr(_v, "__vmon_original__", _v)(
                            event=[(gev.var_of(x), (None if x[2] is None else gev.to_pairs([x])[0][1])) for x in out],
                            target_domain_graph=g, domain_graphs=dgs, domain_data=dd)
                kernel.LOG.case["direct_form_passes_validation"] = True
            except Exception:  # noqa: BLE001
                kernel.LOG.case["direct_form_passes_validation"] = False
            cds = []
            for j, ((dg, topo), (zcol, pp)) in enumerate(zip(dgs, dd)):
                kw = {"graph": dg, "policy_variables": zcol,
                      "population": pp if j % 2 else Variable(doms[j]["population"])}
                if j % 3 != 2:
                    kw["ordering"] = topo
                cds.append(CFTDomain(**kw))
            kernel.count("C09:wrapper-calls")
            if cond:
                res = conditional_cft(outcomes=[valued(x) for x in out], conditions=[valued(x) for x in cond],
                                      target_domain_graph=g, domains=cds)
            else:
                ev1 = [valued(x) for x in out]
                res = unconditional_cft(event=ev1[0] if len(ev1) == 1 and wrapper == 2 else ev1, target_domain_graph=g,
                                        domains=cds)
        elif cond:
            res = transport_conditional_counterfactual_query(outcomes=gev.to_pairs(out), conditions=gev.to_pairs(cond),
                                                             target_domain_graph=g, domain_graphs=dgs, domain_data=dd)
        else:
            ev = [(gev.var_of(x), (None if x[2] is None else gev.to_pairs([x])[0][1])) for x in out]
            res = transport_unconditional_counterfactual_query(event=ev, target_domain_graph=g, domain_graphs=dgs,
                                                               domain_data=dd)
    except Exception:  # noqa: BLE001 -- judged by the monitor
        pass
    shown_event = None if res in (None, "!") or res.event is None else \
        gev.key([x for x in gev.from_event(res.event) if x[2] is not None])
    if res not in (None, "!") and isinstance(res.event, list) and not wrapper and sum(map(ord, gg.key(gd))) % 4 == 1:
        # the caller empties the event list of the answer and asks the same question again
        res.event.clear()
        kernel.count("C09:asked-again-after-editing-the-first-answer")
        try:
            if cond:
                transport_conditional_counterfactual_query(outcomes=gev.to_pairs(out), conditions=gev.to_pairs(cond),
                                                           target_domain_graph=g, domain_graphs=dgs, domain_data=dd)
            else:
                transport_unconditional_counterfactual_query(event=ev, target_domain_graph=g, domain_graphs=dgs,
                                                             domain_data=dd)
        except Exception:  # noqa: BLE001
            pass
    s = None if res in (None, "!") else str(res.expression)
    nt = s is not None and not isinstance(res.expression, Zero) and ("PP[π" in s or " * " in s)
    ctx.case(f"{gg.key(gd)}|{doms}|{gev.key([x for x in out if x[2] is not None])}|{gev.key(cond)}", nt,
             sample={"graph": gd, "domains": doms, "outcomes": gev.key([x for x in out if x[2] is not None]),
                     "conditions": gev.key(cond), "answer": "FAIL" if res is None else ("raised" if res == "!" else s),
                     "returned_event": shown_event})


def planted_cross_world(rng, gd):
    """Plant x -> y, x -> w -> v, w <-> y into the graph (4 nodes in topological order) and ask for [y_x, v_x']: the
    unvalued ancestor w_x' shares a c-component with y_x, so the ctf-factor holds x at two values (inconsistent, the
    procedure must not return an expression for it as if it were consistent).  -> (graph, event) or None"""
    from ..refgraph import RG

    if len(gd["nodes"]) < 4:
        return None
    order = [str(v) for v in RG.make(gd["nodes"], [tuple(e) for e in gd["di"]], []).topological_order()]
    idx = sorted(rng.sample(range(len(order)), 4))
    x, a, b, c = (order[i] for i in idx)
    # x first; of the other three, w must precede v
    w, v, y = rng.choice([(a, b, c), (a, c, b), (b, c, a)])
    di = [list(e) for e in gd["di"]]
    bi = [list(e) for e in gd["bi"]]
    for e in ([x, y], [x, w], [w, v]):
        if e not in di:
            di.append(e)
    if [w, y] not in bi and [y, w] not in bi:
        bi.append([w, y])
    g2 = {"nodes": list(gd["nodes"]), "di": di, "bi": bi, "hostile": "planted-cross-world"}
    if not gg._acyclic(g2["nodes"], g2["di"]):
        return None
    s = rng.random() < 0.5
    ev = [[y, [[x, s]], rng.random() < 0.5], [v, [[x, not s]], rng.random() < 0.5]]
    return g2, ev


def run_shard(ctx):
    gg.ALLOW_ODD = True  # node names that are not Python identifiers are node names like any other
    gg.ALLOW_PREFIXED = False  # a name T_x is a selection node for the transport algorithms
    mon_ctf.install_ctf()
    K = {"quick": 2, "thorough": 3}[ctx.tier]
    mon_ctf.CONFIG.update(K=K)
    mon_cf.CONFIG.update(K=K)
    rng = ctx.rng
    classes = {}
    for i in range(ctx.share({"quick": 14000, "thorough": 100000}[ctx.tier])):
        n = rng.choice([2, 3, 3, 4, 4] + ([5] if ctx.tier == "thorough" else []))
        gd = gg.random_admg(rng, n, p_bi=rng.choice([0.1, 0.2, 0.35]))
        doms = random_domains(rng, gd)
        if i % 4 == 2:
            doms = with_policy_edges(rng, gd, doms)
        if i % 11 == 5:
            pc = planted_cross_world(rng, gd)
            if pc is not None:
                gd, out = pc
                doms = random_domains(rng, gd)
                classes["planted_cross_world"] = classes.get("planted_cross_world", 0) + 1
                run_case(ctx, gd, doms, out, [], rng, wrapper=(0, 1)[i % 2])
                continue
        if i % 3 == 0:
            sp = c08.split_event(rng, gd)
            if sp is None:
                continue
            out, cond, cls = sp
            if cond and rng.random() < 0.15:
                # an outcome that repeats a condition (same variable, same value): P(y, x | x) = P(y | x)
                out = out + [list(rng.choice(cond))]
                cls = cls + "+outcome-repeats-condition"
            elif cond and rng.random() < 0.1:
                # an outcome that contradicts a condition (same variable, other value): probability zero
                c = rng.choice(cond)
                if c[2] is not None:
                    out = out + [[c[0], [list(w) for w in c[1]], not c[2]]]
                    cls = cls + "+outcome-contradicts-condition"
            elif out and rng.random() < 0.18:
                # one outcome variable listed twice with different values: an impossible event, the answer must be zero
                c = rng.choice(out)
                if c[2] is not None:
                    out = out + [[c[0], [list(w) for w in c[1]], not c[2]]]
                    cls = cls + "+outcome-twice-with-two-values"
        else:
            out, cls = gev.random_event(rng, gd)
            cond = []
            if not out or cls == "contradictory_pair":
                continue
        classes[cls] = classes.get(cls, 0) + 1
        run_case(ctx, gd, doms, out, cond, rng, wrapper=(0, 0, 0, 1, 2)[i % 5])
    # wide graphs: query and domains on a small core, 10..14 nodes in the graphs (padding constant in the models)
    for i in range(ctx.share({"quick": 400, "thorough": 5000}[ctx.tier])):
        core = gg.random_admg(rng, rng.choice([2, 3, 3, 4]), p_bi=rng.choice([0.1, 0.2, 0.35]))
        doms = random_domains(rng, core)
        if i % 3 == 0:
            sp = c08.split_event(rng, core)
            if sp is None:
                continue
            out, cond, cls = sp
        else:
            out, cls = gev.random_event(rng, core)
            cond = []
            if not out or cls == "contradictory_pair":
                continue
        gd, pad = gg.embed_wide(core, rng, rng.randint(10, 14))
        classes["wide:" + cls] = classes.get("wide:" + cls, 0) + 1
        run_case(ctx, gd, doms, out, cond, rng, wrapper=(0, 1)[i % 2], cards={w: 1 for w in pad})
    # two small planted families, every sign combination / many insertion orders
    #  (i) w -> x -> y, w <-> x, x <-> y with [y_x, x_w, w]: three members of one district whose subscripts and values chain
    # (ii) a bidirected chain a <-> b <-> c <-> d (<-> e): P*(a | the rest), the ancestral sets are joined only by the chain
    for i in range(ctx.share({"quick": 800, "thorough": 8000}[ctx.tier])):
        if i % 2 == 0:
            nm = gg.names(3, rng, unsorted=rng.random() < 0.3)
            rng.shuffle(nm)
            w, x, y = nm
            gd = {"nodes": rng.sample(nm, 3), "di": [[w, x], [x, y]], "bi": [[w, x], [x, y]], "hostile": "planted-chained-district"}
            v = lambda: rng.random() < 0.5  # noqa: E731
            out = [[y, [[x, v()]], v()], [x, [[w, v()]], v()], [w, [], v()]]
            if rng.random() < 0.3:
                out = out[:2]
            cond = []
            cls = "planted_chained_district"
        elif i % 4 == 1:
            # (iii) one world with two interventions, one upstream of the other (a -> b -> c -> d, a -> d, world {a, b}) and
            # two or three outcomes in that world: the ancestors of d_{a,b} are c_{b} and d_{a,b} (Definition 2.1 works in
            # the graph with the edges into a and b cut), and c_{a,b} minimises to c_{b}
            nm = gg.names(4, rng, unsorted=rng.random() < 0.3)
            rng.shuffle(nm)
            a, b, c, d = nm
            di = [[a, b], [b, c], [c, d], [a, d]]
            if rng.random() < 0.3:
                di.append([b, d])
            bi = [e for e in ([a, c], [c, d], [b, d]) if rng.random() < 0.2]
            rng.shuffle(di)
            gd = {"nodes": rng.sample(nm, 4), "di": di, "bi": bi, "hostile": "planted-chained-interventions"}
            v = lambda: rng.random() < 0.5  # noqa: E731
            wa, wb = v(), v()
            world = [[a, wa], [b, wb]]
            out = [[c, [list(w) for w in world], v()], [d, [list(w) for w in world], v()]]
            if rng.random() < 0.3:
                out = [[c, [[b, wb]], v()], [d, [list(w) for w in world], v()]]
            rng.shuffle(out)
            cond = []
            cls = "planted_chained_interventions"
        else:
            k = rng.choice([4, 4, 5])
            nm = gg.names(k, rng, unsorted=rng.random() < 0.3)
            rng.shuffle(nm)
            bi = [[a, b] for a, b in zip(nm, nm[1:])]
            rng.shuffle(bi)
            bi = [e if rng.random() < 0.5 else e[::-1] for e in bi]
            gd = {"nodes": rng.sample(nm, k), "di": [], "bi": bi, "hostile": "planted-bidirected-chain"}
            v = lambda: rng.random() < 0.5  # noqa: E731
            out = [[nm[0], [], v()]]
            cond = [[n, [], v()] for n in nm[1:]]
            rng.shuffle(cond)
            cls = "planted_bidirected_chain"
        doms = [{"population": "pi*", "transport": [], "policy": []}] if i % 3 else random_domains(rng, gd)
        classes[cls] = classes.get(cls, 0) + 1
        run_case(ctx, gd, doms, out, cond, rng, wrapper=(0, 0, 1)[i % 3])
    # deeply nested districts: IDENTIFY has to peel the district d+1 times before it reaches Q[{C}] (C17's family)
    from .c17 import nested_district

    for d in ((2, 3) + ((4,) if ctx.mine(9) else ())) if ctx.shard % 4 == 1 or ctx.mine(9) else ():
        gd = nested_district(d)
        a_ = [f"A{k}" for k in range(1, d + 1)]
        out = [["C", [[x, False] for x in a_], rng.random() < 0.5]]
        doms = [{"population": "π1", "transport": [f"Z{d}"], "policy": []}]
        classes[f"nested_district_{d}"] = classes.get(f"nested_district_{d}", 0) + 1
        run_case(ctx, gd, doms, out, [], rng, wrapper=0)
    ctx.extras["event_classes"] = classes


def replay(case):
    import random

    mon_ctf.install_ctf()
    mon_ctf.CONFIG.update(K=4)
    mon_cf.CONFIG.update(K=4)

    class _C:
        def case(self, *a, **k):
            pass

    gd = case["graph"]
    gd = {"nodes": gd["nodes"], "di": gd["di"], "bi": gd["bi"]}
    f = lambda ev: [[c[0], [list(w) for w in c[1]], c[2]] for c in ev]  # noqa: E731
    doms = [{"population": d["population"], "transport": d["transport"], "policy": d["policy"],
             **({"topo": d["topo"]} if d.get("topo") else {}), **({"added": d["added"]} if d.get("added") else {})}
            for d in case["domains"]]
    run_case(_C(), gd, doms, f(case["outcomes"]), f(case.get("conditions") or []), random.Random(0), cards=case.get("cards"))


def install_for_suite():
    mon_ctf.install_ctf()
