"""C07 — ID* estimands equal the probability of the counterfactual event (DESIGN §4 C07)."""

from __future__ import annotations

from .. import kernel, mon_cf
from ..gen import events as gev
from ..gen import graphs as gg

PROP = "C07"
RULE = (
    "cases = (ADMG n<=4 (5 thorough) with hostile classes, conjunction of 1-3 counterfactual events with mixed "
    "value polarities: several worlds, the same base in two worlds, factual conjuncts, irrelevant and reflexive "
    "subscripts) through the real id_star. Post-condition: the returned expression is read with the event's own "
    "values for its variables, literal subscript values (a subscript bound by an enclosing Sum takes the summed "
    "value), every free variable the event does not value quantified universally, and must equal P(event) on K "
    "random functional SCMs with shared exogenous noise (exact rationals); a base name the event gives two values "
    "is read existentially (every choice tried). Zero is refuted by a model giving the event positive probability; "
    "anything raised except the refusal is a violation. Known-finding predicates are computed from the algorithm's "
    "own line-6/line-9 calls (wrapped from the harness). non-trivial = a non-zero expression was returned and line "
    "6 or line 9 was reached with >=2 conjuncts or a subscript; distinct by (graph, event)."
)
ASSUMPTIONS = ["O1/O2 with the reading conventions of DESIGN §3 (literal subscripts, event values, universal reading "
               "of unvalued free variables, existential reading of doubly valued names)", "sampled models, exact equality"]
MIN_NONTRIVIAL = {"quick": 300, "thorough": 6000}
REQUIRED = ["eval:id_star", "C07:estimands-evaluated", "C07:estimands-correct", "C07:zero-answers", "C07:refusals"]
TIMEOUT = {"quick": 900, "thorough": 7200}


def run_case(ctx, gd, ev, cls, g=None, cards=None):
    from y0.algorithm.identify import id_star

    g = gg.to_nx(gd) if g is None else g
    kernel.LOG.reset_case({"graph": gd, "event": ev, **({"cards": cards} if cards else {})})
    res = None
    try:
        res = id_star(g, gev.to_event(ev))
    except Exception:  # noqa: BLE001 -- judged by the monitor
        pass
    lines = mon_cf.FACTS.get("lines", set())
    from y0.dsl import Zero

    nt = res is not None and not isinstance(res, Zero) and bool(lines & {"line6", "line9"}) and \
        (len(ev) >= 2 or any(c[1] for c in ev))
    ctx.case(f"{gg.key(gd)}|{gev.key(ev)}", nt,
             sample={"graph": gd, "event": gev.key(ev), "class": cls, "answer": str(res), "lines": sorted(lines)})


def planted_orphan_label(rng):
    """b -> z -> y <- d, f -> y, e <-> d <-> z <-> y (names shuffled, a few extra edges), and the event
    [e_{b,d}, y_{b,f}] (+ optionally d observed, mixed polarities): the world {b, d} is irrelevant to e's own variable except
    through labels that survive on other nodes of the counterfactual graph after the two worlds are merged."""
    nm = gg.names(6, rng, unsorted=rng.random() < 0.3)
    rng.shuffle(nm)
    b, z, y, d, f, e = nm
    di = [[b, z], [z, y], [d, y], [f, y]]
    bi = [[e, d], [d, z], [z, y]]
    if rng.random() < 0.3:
        di.append(rng.choice([[b, e], [f, z], [b, d]]))
    if rng.random() < 0.2:
        bi.append(rng.choice([[e, y], [b, f]]))
    gd = {"nodes": sorted(nm) if rng.random() < 0.5 else nm, "di": di, "bi": bi, "hostile": "planted-orphan-label"}
    val = lambda: rng.random() < 0.5  # noqa: E731
    sd = val()
    ev = [[e, [[b, False]] + [[d, sd]], val()], [y, [[b, False], [f, val()]], val()]]
    if rng.random() < 0.5:
        ev.append([d, [], not sd if rng.random() < 0.6 else sd])
    return gd, ev


def run_shard(ctx):
    gg.ALLOW_ODD = True  # node names that are not Python identifiers are node names like any other
    mon_cf.install_idstar()
    mon_cf.CONFIG.update(K={"quick": 2, "thorough": 3}[ctx.tier])
    rng = ctx.rng
    classes = {}
    for i in range(ctx.share({"quick": 30000, "thorough": 200000}[ctx.tier])):
        n = rng.choice([2, 3, 3, 4, 4, 4] + ([5] if ctx.tier == "thorough" else []))
        gd = gg.random_admg(rng, n)
        if i % 25 == 19:
            from .c08 import planted_template

            gd, out_, cond_ = planted_template(rng)
            ev, keys_ = [], set()
            for c_ in out_ + cond_:
                k_ = (c_[0], tuple(map(tuple, c_[1])))
                if k_ not in keys_:
                    keys_.add(k_)
                    ev.append(c_)
            classes["planted_template"] = classes.get("planted_template", 0) + 1
            run_case(ctx, gd, ev, "planted_template")
            continue
        if i % 25 == 9:
            gd, ev = planted_orphan_label(rng)
            classes["planted_orphan_label"] = classes.get("planted_orphan_label", 0) + 1
            run_case(ctx, gd, ev, "planted_orphan_label")
            continue
        ev, cls = gev.random_event(rng, gd)
        if not ev or cls == "contradictory_pair":
            continue
        classes[cls] = classes.get(cls, 0) + 1
        run_case(ctx, gd, ev, cls)
    # edit histories: one graph object queried, edited in place through its public mutators, queried again
    for _ in range(ctx.share({"quick": 400, "thorough": 8000}[ctx.tier])):
        gd = gg.random_admg(rng, rng.choice([2, 3, 3, 4]))
        g = gg.to_nx(gd)
        for _s in range(5):
            for _q in range(2):
                ev, cls = gev.random_event(rng, gd)
                if ev and cls != "contradictory_pair":
                    classes["history:" + cls] = classes.get("history:" + cls, 0) + 1
                    run_case(ctx, gd, ev, cls, g=g)
            if len(gd["nodes"]) < 5:
                gd = gg.edit_inplace(g, gd, rng)
    # wide graphs: the event lives on a small core, the graph has 10..14 (sometimes 64) nodes whose padding is constant
    # in the exact models
    for i in range(ctx.share({"quick": 600, "thorough": 8000}[ctx.tier])):
        core = gg.random_admg(rng, rng.choice([2, 3, 3, 4]))
        ev, cls = gev.random_event(rng, core)
        if not ev or cls == "contradictory_pair":
            continue
        total = 64 if i % 12 == 0 else rng.randint(10, 14)
        gd, pad = gg.embed_wide(core, rng, total, **({"p_di": 0.02, "p_bi": 0.01} if total == 64 else {}))
        classes["wide:" + cls] = classes.get("wide:" + cls, 0) + 1
        run_case(ctx, gd, ev, cls, cards={w: 1 for w in pad})
    ctx.extras["event_classes"] = classes


def replay(case):
    mon_cf.install_idstar()
    mon_cf.CONFIG.update(K=4)

    class _C:
        def case(self, *a, **k):
            pass

    gd = case["graph"]
    gd = {"nodes": gd["nodes"], "di": gd["di"], "bi": gd["bi"]}
    run_case(_C(), gd, [[c[0], [list(w) for w in c[1]], c[2]] for c in case["event"]], "replay", cards=case.get("cards"))


def install_for_suite():
    mon_cf.install_idstar()
