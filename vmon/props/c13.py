"""C13 — DSL operators and rewrite helpers are identities of probability calculus (DESIGN §4 C13)."""

from __future__ import annotations

from .. import kernel, mon_dsl
from ..gen import exprs as ge

PROP = "C13"
TYPES = ["Probability", "PopulationProbability", "Product", "Sum", "Fraction", "One", "Zero", "QFactor"]
RULE = (
    "cases = operator applications a*b and a/b for operands of every pair of the 8 expression types "
    "(Probability, PopulationProbability, Product, Sum, Fraction, One, Zero, QFactor; operands of nesting depth "
    "<=3 built with public operators or raw constructors), e.marginalize(r), e.conditional(r), "
    "e.normalize_marginalize(r), Fraction.simplify, Sum.simplify, Sum.safe(simplify=True), Product.safe, "
    "chain_expand (reorder on/off, explicit orderings listing the children as they occur), fraction_expand, "
    "bayes_expand, contract, recursive_contract. Post-conditions on the real dunders/helpers compare the "
    "result's denotation with the mathematical operation on the operands' denotations under a free "
    "interpretation (exact rationals, 2 interpretations x all/48 assignments); inner operator calls made by the "
    "operators themselves are monitored too. Division by a syntactic Zero is excluded (undefined). For "
    "conditional(r) the normaliser may or may not range over unbound subscript names (both readings accepted). "
    "non-trivial = both operands non-constant (operators) / result differs from the input object (helpers); "
    "distinct by (operation, operand sources)."
)
ASSUMPTIONS = ["free interpretation (vmon/freeinterp.py)", "sampled operands; the 8x8 type matrix must be fully covered"]
MIN_NONTRIVIAL = {"quick": 1500, "thorough": 30000}
REQUIRED = ["C13:mul:equal", "C13:div:equal", "C13:marginalize:equal", "C13:conditional:equal",
            "C13:Fraction.simplify:equal", "C13:Sum.simplify:equal", "C13:chain_expand:equal",
            "C13:fraction_expand:equal", "C13:bayes_expand:equal", "C13:contract:equal",
            "C13:recursive_contract:equal", "C13:Sum.safe:equal", "C13:Product.safe:equal"] + \
           [f"C13:mul:{a}x{b}" for a in TYPES for b in TYPES] + \
           [f"C13:div:{a}x{b}" for a in TYPES for b in TYPES if b != "Zero"]
TIMEOUT = {"quick": 900, "thorough": 7200}

OPTS = dict(marks=True, interventions=True, populations=True, constants=True, multiworld=True, qfactors=True,
            equal_fractions=True, overlap=True)
PLAIN = dict(marks=True, interventions=True, multiworld=False, populations=False)


def of_type(rng, tname, names, raw):
    """A random expression whose top-level type is tname."""
    from y0.dsl import One, Zero

    b = ge.build_raw if raw else ge.build_public
    if tname == "One":
        return One()
    if tname == "Zero":
        return Zero()
    if tname == "QFactor":
        k = rng.randint(1, 2)
        picked = rng.sample(names, k + 1)
        return b(["q", sorted(picked[:k]), sorted(picked[k:])])
    if tname == "Probability":
        return b(ge.rand_prob(rng, names, dict(OPTS, populations=False)))
    if tname == "PopulationProbability":
        ast = ge.rand_prob(rng, names, OPTS)
        ast[1] = rng.choice(ge.POPS)
        return b(ast)
    sub = lambda d: ge.rand_ast(rng, d, names, dict(OPTS, constants=False))  # noqa: E731
    for _ in range(20):
        if tname == "Product":
            e = ge.build_raw(["prod", [sub(rng.randint(0, 1)) for _ in range(rng.choice([2, 2, 3]))]])
        elif tname == "Sum":
            body = sub(rng.randint(0, 2))
            fv = sorted(ge.ast_free(body) - ge._q_names(body))
            if not fv:
                continue
            e = b(["sum", sorted(rng.sample(fv, rng.randint(1, min(2, len(fv))))), body])
        elif tname == "Fraction":
            e = b(["frac", sub(rng.randint(0, 1)), sub(rng.randint(0, 1))])
        else:
            raise ValueError(tname)
        if type(e).__name__ == tname:
            return e
    return None


def _call(ctx, op, fn, key, nontrivial_fn=None, operands=None):
    kernel.LOG.reset_case({"op": op, **{k: ge.to_src(v) if mon_dsl._is_expr(v) else v for k, v in (operands or {}).items()}})
    n0 = len(mon_dsl.LOGGED)
    res = None
    try:
        res = fn()
    except ZeroDivisionError:
        kernel.count(f"C13:{op}:division-by-zero-excluded")
    except Exception as ex:  # noqa: BLE001
        shown = {k: str(v) for k, v in (operands or {}).items()}
        kernel.violation(PROP, f"{op}-total", f"{op} on {shown} raised {type(ex).__name__}: {ex}",
                         case=kernel.LOG.case, mech=classify_raise(op, operands, ex))
    del mon_dsl.LOGGED[n0:]
    nt = res is not None and (nontrivial_fn(res) if nontrivial_fn else True)
    ctx.case(f"{op}|{key}", nt, sample={"op": op, **{k: str(v) for k, v in (operands or {}).items()}, "result": str(res)})
    return res


def classify_raise(op, operands, ex):
    return None


def _const(e):
    return type(e).__name__ in ("One", "Zero")


def run_shard(ctx):
    import warnings

    warnings.simplefilter("ignore")
    mon_dsl.install_ops()
    from y0.dsl import Fraction, Probability, Product, Sum, Variable
    from y0.mutate import bayes_expand, chain_expand, fraction_expand
    from y0.mutate.contract import contract, recursive_contract

    rng = ctx.rng
    # 1. operator matrix
    reps = {"quick": 3, "thorough": 60}[ctx.tier]
    pairs = [(a, b) for a in TYPES for b in TYPES]
    for r in range(reps):
        for idx, (ta, tb) in enumerate(pairs):
            if not ctx.mine(idx + r):
                continue
            names = rng.sample(ge.NAMES, rng.randint(3, 5))
            a = of_type(rng, ta, names, raw=rng.random() < 0.4)
            b = of_type(rng, tb, names, raw=rng.random() < 0.4)
            if a is None or b is None:
                continue
            nt = lambda res, a=a, b=b: not _const(a) and not _const(b)  # noqa: E731
            _call(ctx, "mul", lambda: a * b, ge.to_src(a) + "*" + ge.to_src(b), nt, {"a": a, "b": b})
            _call(ctx, "div", lambda: a / b, ge.to_src(a) + "/" + ge.to_src(b), nt, {"a": a, "b": b})
    # 2. random operands of any nesting
    n = ctx.share({"quick": 1200, "thorough": 40000}[ctx.tier])
    for i in range(n):
        names = rng.sample(ge.NAMES, rng.randint(3, 5))
        mk = ge.build_raw if i % 3 == 0 else ge.build_public
        try:
            a = mk(ge.rand_ast(rng, rng.randint(0, 3), names, OPTS))
            b = mk(ge.rand_ast(rng, rng.randint(0, 3), names, OPTS))
        except ZeroDivisionError:
            continue
        nt = lambda res, a=a, b=b: not _const(a) and not _const(b)  # noqa: E731
        _call(ctx, "mul", lambda: a * b, ge.to_src(a) + "*" + ge.to_src(b), nt, {"a": a, "b": b})
        _call(ctx, "div", lambda: a / b, ge.to_src(a) + "/" + ge.to_src(b), nt, {"a": a, "b": b})
    # 3. marginalize / conditional / normalize_marginalize / simplify / safe constructors
    n = ctx.share({"quick": 1500, "thorough": 40000}[ctx.tier])
    for i in range(n):
        names = rng.sample(ge.NAMES, rng.randint(3, 5))
        opts = dict(OPTS, qfactors=False, constants=(i % 4 == 0))
        mk = ge.build_raw if i % 3 == 0 else ge.build_public
        try:
            e = mk(ge.rand_ast(rng, rng.randint(0, 3), names, opts))
        except ZeroDivisionError:
            continue
        src = ge.to_src(e)
        fv = sorted(mon_dsl.free_names(e))
        pool = fv + ([rng.choice(names)] if rng.random() < 0.2 else [])
        if pool:
            r = sorted(set(rng.sample(pool, rng.randint(1, min(2, len(pool))))))
            rv = [Variable(x) for x in r]
            # the ranges in the forms the signatures take: a list / tuple / set of variables or of names, one variable,
            # one bare name (also a name of several characters)
            fk = (i + sum(map(ord, "".join(r)))) % 8
            if len(r) == 1 and fk in (0, 1):
                rv = r[0] if fk == 0 else Variable(r[0])
                kernel.count("C13:ranges-as-bare-name" if fk == 0 else "C13:ranges-as-one-variable")
            elif fk == 2:
                rv = list(r)
            elif fk == 3:
                rv = tuple(rv)
            elif fk == 4:
                rv = set(rv)
            elif fk == 5:
                rv = tuple(r)
            differs = lambda res, e=e: res != e  # noqa: E731
            _call(ctx, "marginalize", lambda: e.marginalize(rv), f"{src}|{r}", differs, {"e": e, "ranges": r})
            if not _const(e):
                _call(ctx, "conditional", lambda: e.conditional(rv), f"{src}|{r}", differs, {"e": e, "ranges": r})
                _call(ctx, "normalize_marginalize", lambda: e.normalize_marginalize(rv), f"{src}|{r}", differs,
                      {"e": e, "ranges": r})
            _call(ctx, "Sum.safe", lambda: Sum.safe(e, rv, simplify=bool(i % 2)), f"{src}|{r}|{i % 2}", differs,
                  {"e": e, "ranges": r})
        if isinstance(e, Fraction):
            _call(ctx, "Fraction.simplify", lambda: e.simplify(), src, lambda res, e=e: res != e, {"e": e})
        if isinstance(e, Sum):
            _call(ctx, "Sum.simplify", lambda: e.simplify(), src, lambda res, e=e: res != e, {"e": e})
        # targeted simplify operands: fractions of products sharing factors; sums over joints
        if i % 2 == 0:
            fs = [ge.build_raw(ge.rand_prob(rng, names, OPTS)) for _ in range(4)]
            num = Product(tuple(rng.sample(fs, 3)))
            den = Product(tuple(rng.sample(fs, 2))) if i % 4 else rng.choice(fs)
            fr = Fraction(num if i % 8 else rng.choice(fs), den)
            _call(ctx, "Fraction.simplify", lambda: fr.simplify(), ge.to_src(fr), lambda res, e=fr: res != e, {"e": fr})
            # repeated factors: a factor two or three times in the numerator and fewer times in the denominator (and the
            # other way round) - the cancellation must remove one copy per copy
            f0, f1 = rng.sample(fs, 2)
            n_num, n_den = rng.choice([(2, 1), (3, 1), (3, 2), (1, 2), (2, 2)])
            numr = Product(tuple([f0] * n_num + [f1])) if n_num + 1 > 1 else f0
            denr = Product(tuple([f0] * n_den + ([rng.choice(fs)] if i % 3 else []))) if n_den + (1 if i % 3 else 0) > 1 else f0
            fr2 = Fraction(numr, denr)
            _call(ctx, "Fraction.simplify", lambda: fr2.simplify(), ge.to_src(fr2), lambda res, e=fr2: res != e, {"e": fr2})
            parts = tuple(rng.sample(fs, rng.randint(1, 3))) + ((mk(["one"]),) if i % 6 == 0 else ())
            res = _call(ctx, "Product.safe", lambda: Product.safe(parts), "|".join(map(ge.to_src, parts)), None,
                        {f"f{j}": p for j, p in enumerate(parts)})
            if res is not None:
                with kernel.quiet():
                    mon_dsl._post_product_safe(parts, res, Product, parts)
        else:
            ast = ge.rand_prob(rng, names, dict(OPTS, marks=(i % 4 == 1)))
            if i % 5 in (0, 1, 2):
                ast[3] = []
            else:
                # a bare CONDITIONAL probability under the sum (ranges inside the children, across them, with a
                # bystander name, or touching a condition): sum_a P(a, b | c) = P(b | c), the conditions stay
                kernel.count("C13:Sum.simplify:conditional-operand")
            joint = ge.build_raw(ast)
            base = sorted({v[0] for v in ast[2]})
            extra = [x for x in names if x not in base and (ast[3] == [] or i % 7 == 3 or x not in {v[0] for v in ast[3]})]
            r = sorted(set(rng.sample(base, rng.randint(1, len(base))) + (rng.sample(extra, 1) if extra and i % 3 != 1 else [])))
            if all(v[1] is None for v in ast[2] if v[0] in r):
                s = Sum(joint, frozenset(Variable(x) for x in r))
                _call(ctx, "Sum.simplify", lambda: s.simplify(), ge.to_src(s), lambda res, e=s: res != e, {"e": s})
    # 4. expansion / contraction helpers
    n = ctx.share({"quick": 1500, "thorough": 40000}[ctx.tier])
    for i in range(n):
        names = rng.sample(ge.NAMES, rng.randint(3, 6))
        ast = ge.rand_prob(rng, names, dict(OPTS, multiworld=(i % 5 == 0)))
        if i % 9 == 4 and ast[2]:
            # a condition that repeats an outcome: P(A, B | A) = P(B | A) - unusual, but a probability like any other
            ast[3] = [list(x) if isinstance(x, list) else x for x in ast[3]] + [rng.choice(ast[2])]
            kernel.count("C13:condition-repeats-an-outcome")
        if i % 7 == 1 and ast[2]:
            # two outcomes of one NAME in different worlds (P(Y @ +X, Y @ -X, Z)): different random variables, a joint
            # like any other - the helpers must keep both
            c = rng.choice(ast[2])
            others = [x for x in names if x != c[0]]
            if c[2]:
                twin_iv = rng.choice([[], [[c[2][0][0], not c[2][0][1]]] + [list(x) for x in c[2][1:]]])
            else:
                twin_iv = [[rng.choice(others), rng.random() < 0.5]] if others else None
            if twin_iv is not None:
                twin = [c[0], c[1], twin_iv]
                if all(not (v[0] == twin[0] and sorted(map(tuple, v[2])) == sorted(map(tuple, twin[2]))) for v in ast[2] + ast[3]):
                    ast[2] = list(ast[2]) + [twin]
                    rng.shuffle(ast[2])
                    kernel.count("C13:same-name-outcomes-in-two-worlds")
        p = ge.build_raw(ast)
        src = ge.to_src(p)
        mode = i % 4
        if mode == 0:
            _call(ctx, "chain_expand", lambda: chain_expand(p), src + "|auto", lambda res: res != p, {"p": p})
        elif mode == 1:
            _call(ctx, "chain_expand", lambda: chain_expand(p, reorder=False), src + "|noreorder", lambda res: res != p,
                  {"p": p, "reorder": False})
        elif mode == 2:
            o = list(p.children) + [v for v in p.parents if rng.random() < 0.5]
            rng.shuffle(o)
            _call(ctx, "chain_expand", lambda: chain_expand(p, ordering=o), src + f"|{o}", lambda res: res != p,
                  {"p": p, "ordering": [str(x) for x in o]})
        _call(ctx, "fraction_expand", lambda: fraction_expand(p), src, lambda res: res != p, {"p": p})
        _call(ctx, "bayes_expand", lambda: bayes_expand(p), src, lambda res: res != p, {"p": p})
        # contraction: fractions of joints (sub-joint denominators, unrelated denominators, other populations)
        ch = list(p.children) + list(p.parents)
        if len(ch) >= 2:
            k = rng.randint(1, len(ch) - 1)
            sub = rng.sample(ch, k)
            from y0.dsl import Distribution

            numer = p._new(Distribution(children=tuple(ch)))
            r = rng.random()
            if r < 0.6:
                denom = p._new(Distribution(children=tuple(sub)))
            elif r < 0.8:
                denom = Probability(Distribution(children=tuple(sub)))
            else:
                denom = ge.build_raw(ge.rand_prob(rng, names, OPTS))
            if i % 3 == 0 and len(ch) >= 3:
                # conditioned numerators / denominators (parents equal, nested or unrelated)
                kids, pars = ch[:-1], ch[-1:]
                k2 = rng.randint(1, len(kids) - 1) if len(kids) > 1 else 1
                numer = p._new(Distribution(children=tuple(kids), parents=tuple(pars)))
                denom = p._new(Distribution(children=tuple(rng.sample(kids, k2)),
                                            parents=rng.choice([tuple(pars), (), tuple(pars)])))
            fr = Fraction(numer, denom)
            _call(ctx, "contract", lambda: contract(fr), ge.to_src(fr), lambda res: res != fr, {"e": fr})
            wrapped = rng.choice([
                lambda: Sum(Product((fr, ge.build_raw(ge.rand_prob(rng, names, PLAIN)))), frozenset([Variable(sub[0].name)])),
                lambda: Product((fr, Fraction(numer, denom))),
                lambda: Fraction(fr, ge.build_raw(ge.rand_prob(rng, names, PLAIN))),
            ])()
            _call(ctx, "recursive_contract", lambda: recursive_contract(wrapped), ge.to_src(wrapped),
                  lambda res: res != wrapped, {"e": wrapped})
        if i % 11 == 3:
            # operands that contain the constants: 1/P(B) (what Fraction.simplify leaves of P(A)/(P(A)P(B))), 0/P(A),
            # a joint over 1/P(C), the bare constants - contraction must return something equivalent for each of them
            from y0.dsl import One, Zero

            q = ge.build_raw(ge.rand_prob(rng, names, PLAIN))
            for cexpr in (Fraction(One(), q), Fraction(Zero(), q), Fraction(p, Fraction(One(), q)), One(),
                          Fraction(Product((p, One())), q), Product((Fraction(One(), q), p))):
                kernel.count("C13:contract:operands-with-constants")
                _call(ctx, "contract", lambda: contract(cexpr), ge.to_src(cexpr), lambda res: True, {"e": cexpr})
                _call(ctx, "recursive_contract", lambda: recursive_contract(cexpr), ge.to_src(cexpr), lambda res: True,
                      {"e": cexpr})
        if i % 50 == 0:
            same = Fraction(p, p)
            _call(ctx, "contract", lambda: contract(same), ge.to_src(same), lambda res: True, {"e": same})


def replay(case):
    import warnings

    warnings.simplefilter("ignore")
    mon_dsl.install_ops()
    from y0.dsl import Sum, Variable
    from y0.mutate import bayes_expand, chain_expand, fraction_expand
    from y0.mutate.contract import contract, recursive_contract

    class _C:
        def case(self, *a, **k):
            pass

    op = case["op"].replace("-total", "")
    g = lambda k: ge.from_src(case[k])  # noqa: E731
    rv = [Variable(x) for x in case.get("ranges", [])]
    fns = {
        "mul": lambda: g("a") * g("b"), "div": lambda: g("a") / g("b"),
        "marginalize": lambda: g("e").marginalize(rv), "conditional": lambda: g("e").conditional(rv),
        "normalize_marginalize": lambda: g("e").normalize_marginalize(rv),
        "Sum.safe": lambda: Sum.safe(g("e"), rv, simplify=bool(case.get("simplify", True))),
        "Fraction.simplify": lambda: g("e").simplify(), "Sum.simplify": lambda: g("e").simplify(),
        "chain_expand": lambda: chain_expand(g("p"), reorder=case.get("reorder", True)),
        "chain_expand-single-child": lambda: chain_expand(g("p"), reorder=case.get("reorder", True)),
        "fraction_expand": lambda: fraction_expand(g("p") if "p" in case else g("e")),
        "bayes_expand": lambda: bayes_expand(g("p") if "p" in case else g("e")),
        "contract": lambda: contract(g("e")), "recursive_contract": lambda: recursive_contract(g("e")),
    }
    if op in fns:
        operands = {k: g(k) for k in ("a", "b", "e", "p") if k in case}
        _call(_C(), op, fns[op], "replay", None, operands)


def install_for_suite():
    mon_dsl.install_ops()
