"""C20 — sigma-separation agrees with d-separation on acyclic graphs; symmetric and never
separates adjacent nodes on any mixed graph (DESIGN §4 C20)."""

from __future__ import annotations

import itertools as itt

from .. import kernel
from ..gen import graphs as gg
from ..refgraph import RG, analyse_connection

PROP = "C20"
RULE = (
    "cases = (mixed graph, ordered pair a,b, conditioning set C). Acyclic part: EXHAUSTIVE over all labelled "
    "ADMGs on <=3 nodes (+ seeded sample of the 4-node ADMGs in quick, all 34 752 in thorough) x ordered pairs x "
    "all C, plus random ADMGs n=5,6; the real are_sigma_separated verdict is compared with Bayes-ball "
    "m-separation on the latent DAG. Any-graph part: random directed mixed graphs WITH cycles n<=5: "
    "verdict(a,b) == verdict(b,a) and adjacent nodes never separated. non-trivial = C non-empty and graph has "
    ">=2 edges; distinct by (graph, {a,b}, C)."
)
ASSUMPTIONS = ["O3 Bayes-ball on the latent DAG defines d-/m-separation for ADMGs",
               "finding predicates are computed from O3's own typed-path analysis, never from y0 internals"]
MIN_NONTRIVIAL = {"quick": 3000, "thorough": 100000}
REQUIRED = ["eval:are_sigma_separated"]
EXHAUSTIVE = {"quick": "all ADMGs on <=3 labelled nodes x all ordered pairs x all conditioning sets",
              "thorough": "all ADMGs on <=4 labelled nodes x all ordered pairs x all conditioning sets"}
TIMEOUT = {"quick": 600, "thorough": 7200}


def _post(snap, res, graph, left, right, *, conditions=None, cutoff=None):
    ref = RG.from_nx(graph)
    if cutoff is not None and cutoff < len(ref.V) - 1:
        kernel.count("C20:cutoff-call-skipped")  # a real path-length limit changes the question
        return
    if conditions is not None and not isinstance(conditions, (set, frozenset, list, tuple)):
        # a one-shot iterable was consumed by the call: the driver's record of the query stands in for it
        c = kernel.LOG.case
        if isinstance(c, dict) and isinstance(c.get("C"), list) and c.get("a") == str(left) and c.get("b") == str(right):
            conditions = {gg.node(n) for n in c["C"]}
        else:
            kernel.count("C20:one-shot-conditions-not-judged")
            return
    C = set(conditions or ())
    if left == right or left in C or right in C:
        kernel.count("C20:degenerate-query")
        return
    got = bool(res)
    case = {"graph": {"nodes": sorted(map(str, ref.V)), "di": sorted([str(u), str(v)] for u, v in ref.D),
                      "bi": sorted(sorted(map(str, e)) for e in ref.B)},
            "a": str(left), "b": str(right), "C": sorted(map(str, C))}
    adjacent = (left, right) in ref.D or (right, left) in ref.D or frozenset((left, right)) in ref.B
    if adjacent and got:
        kernel.violation(PROP, "adjacent-separated", f"{left} and {right} are joined by an edge but reported "
                         f"sigma-separated given {case['C']}; graph {case['graph']}", case=case,
                         mech=None)
    if ref.is_acyclic():
        kernel.count("C20:acyclic-verdicts")
        want = ref.m_separated(left, right, C)
        if got != want:
            mech = None
            if got and not want:
                an = analyse_connection(ref, left, right, C)
                if an["connected"] and not an["plain"]:
                    mech = "sigma.bow-tail" if an["plain_if_bow_fixed"] else "sigma.deep-collider"
            kernel.violation(
                PROP, "agreement",
                f"are_sigma_separated({left},{right}|{case['C']}) = {got}, d-separation = {want}; graph {case['graph']}",
                witness=case, mech=mech, case=case)
    else:
        kernel.count("C20:cyclic-verdicts")


def install():
    import y0.algorithm.separation.sigma_separation as ss

    kernel.install_function(ss, "are_sigma_separated", label="are_sigma_separated", post=_post)


def query(ctx, g, gd, a, b, C, gkey, both=True):
    from y0.algorithm.separation.sigma_separation import are_sigma_separated
    from y0.dsl import Variable

    kernel.LOG.reset_case({"graph": gd, "a": a, "b": b, "C": sorted(C)})
    Cv = {Variable(c) for c in C}
    # the conditions in every form the signature admits (and None for the empty set); a non-binding cutoff sometimes
    k = sum(map(ord, gkey + a + b + "".join(sorted(C))))
    form = [set, frozenset, list, tuple, iter, lambda xs: (x for x in xs), lambda xs: map(lambda x: x, xs)][k % 7]
    kw = {"conditions": (None if not Cv and k % 3 == 0 else form(sorted(Cv, key=str)))}
    if k % 5 == 0:
        kw["cutoff"] = len(gd["nodes"]) + 1
    if k % 6 == 1 and "@" not in "".join(gd["nodes"]):
        # the caller has used the graph before: it asked for descendant / ancestor sets of single nodes and edited the
        # sets it got (its own objects) - the next answer must not depend on that
        with kernel.quiet():
            for m_ in sorted(C)[:2] + [a]:
                d_ = g.descendants_inclusive(Variable(m_))
                d_.discard(Variable(m_))
                a_ = g.ancestors_inclusive({Variable(m_)})
                a_.clear()
        kernel.count("C20:queries-after-the-caller-edited-returned-sets")
    try:
        r1 = are_sigma_separated(g, Variable(a), Variable(b), **kw)
    except Exception as e:  # noqa: BLE001
        kernel.violation(PROP, "total", f"are_sigma_separated raised {type(e).__name__}: {e}")
        return
    if both:
        try:
            r2 = are_sigma_separated(g, Variable(b), Variable(a), conditions=Cv)
            if bool(r1) != bool(r2):
                kernel.violation(PROP, "symmetry", f"verdict({a},{b}|{sorted(C)})={r1} but verdict({b},{a})={r2}; graph {gd}")
        except Exception as e:  # noqa: BLE001
            kernel.violation(PROP, "total", f"are_sigma_separated raised {type(e).__name__}: {e}")
    nt = bool(C) and len(gd["di"]) + len(gd["bi"]) >= 2
    lo, hi = sorted((a, b))
    ctx.case(f"{gkey}|{lo},{hi}|{','.join(sorted(C))}", nt,
             sample={"graph": gd, "a": a, "b": b, "C": sorted(C), "sigma_separated": bool(r1)})


def all_queries(ctx, gd):
    g = gg.to_nx(gd)
    gkey = gg.key(gd)
    for a, b in itt.combinations(gd["nodes"], 2):
        rest = [n for n in gd["nodes"] if n not in (a, b)]
        for C in gg.subsets(rest):
            query(ctx, g, gd, a, b, list(C), gkey)


def random_cyclic(rng, n):
    nm = gg.names(n)
    p = rng.choice((0.2, 0.35, 0.5))
    q = rng.choice((0.15, 0.3, 0.5))
    di = [[a, b] for a in nm for b in nm if a != b and rng.random() < p]
    bi = [[a, b] for a, b in itt.combinations(nm, 2) if rng.random() < q]
    return {"nodes": nm, "di": di, "bi": bi, "hostile": "cyclic"}


def long_graph(rng):
    """A path X00 - X01 - ... of 12..18 nodes whose consecutive nodes are joined by ->, <- or <->, plus a few pendant nodes."""
    n = rng.randint(12, 18)
    nm = [f"X{i:02d}" for i in range(n)]
    di, bi = [], []
    style = rng.choice(["directed", "bidirected", "mixed", "mixed"])
    for u, v in zip(nm, nm[1:]):
        r = rng.random()
        if style == "directed" or (style == "mixed" and r < 0.5):
            di.append([u, v])
        elif style == "bidirected" or r < 0.8:
            bi.append([u, v])
        else:
            di.append([v, u])
    extra = [f"Z{i}" for i in range(rng.randint(0, 3))]
    for z in extra:
        a = rng.choice(nm)
        (di if rng.random() < 0.7 else bi).append([a, z])
    return {"nodes": nm + extra, "di": di, "bi": bi, "hostile": "long-" + style}


def run_shard(ctx):
    gg.ALLOW_ODD = True  # node names that are not Python identifiers are node names like any other
    install()
    rng = ctx.rng
    idx = 0
    for n in (2, 3):
        for gd in gg.all_admgs(n):
            if ctx.mine(idx):
                all_queries(ctx, gd)
            idx += 1
    n4 = 0
    for gd in gg.all_admgs(4):
        idx += 1
        if not ctx.mine(idx):
            continue
        if ctx.tier == "quick" and rng.random() > 0.04:
            continue
        n4 += 1
        all_queries(ctx, gd)
    ctx.extras["admg4_graphs"] = n4
    for _ in range(ctx.share({"quick": 600, "thorough": 20000}[ctx.tier])):
        n = rng.randint(5, 6)
        gd = gg.random_admg(rng, n, hostile=rng.choice(gg.HOSTILE + ("deepcollider",) * 4),
                            p_di=rng.choice((0.2, 0.35, 0.5)), p_bi=rng.choice((0.2, 0.35)))
        g = gg.to_nx(gd)
        gkey = gg.key(gd)
        if "hint" in gd:
            h = gd["hint"]
            query(ctx, g, gd, h["a"], h["b"], h["C"], gkey)
        for _q in range(4):
            a, b = rng.sample(gd["nodes"], 2)
            rest = [x for x in gd["nodes"] if x not in (a, b)]
            C = rng.sample(rest, rng.randint(0, len(rest)))
            query(ctx, g, gd, a, b, sorted(C), gkey)
    # long graphs: chains and trees of 12..18 nodes whose only connection between the two ends has 11 or more edges
    for _ in range(ctx.share({"quick": 80, "thorough": 2000}[ctx.tier])):
        gd = long_graph(rng)
        g = gg.to_nx(gd)
        gkey = gg.key(gd)
        nodes = gd["nodes"]
        ends = [(nodes[0], nodes[-1])] + [tuple(rng.sample(nodes, 2)) for _q in range(3)]
        for a, b in ends:
            rest = [x for x in nodes if x not in (a, b)]
            for C in ([], rng.sample(rest, 1), rng.sample(rest, min(len(rest), rng.randint(1, 3)))):
                query(ctx, g, gd, a, b, sorted(C), gkey, both=False)
    # dense acyclic 9-node graphs (up to 36 directed edges), small conditioning sets
    for _ in range(ctx.share({"quick": 60, "thorough": 1500}[ctx.tier])):
        # (the path enumeration of the real function is exponential: 9 nodes keep it within seconds)
        gd = gg.random_admg(rng, 9, hostile="none", p_di=rng.choice((0.5, 0.7, 0.95)), p_bi=rng.choice((0.05, 0.15)))
        g = gg.to_nx(gd)
        gkey = gg.key(gd)
        for _q in range(4):
            a, b = rng.sample(gd["nodes"], 2)
            rest = [x for x in gd["nodes"] if x not in (a, b)]
            query(ctx, g, gd, a, b, sorted(rng.sample(rest, rng.randint(0, 2))), gkey, both=False)
    # edit histories: query one graph object, edit it in place, query the same object again
    for _ in range(ctx.share({"quick": 300, "thorough": 6000}[ctx.tier])):
        gd = gg.random_admg(rng, rng.randint(3, 5))
        g = gg.to_nx(gd)
        for _s in range(6):
            for _q in range(3):
                a, b = rng.sample(gd["nodes"], 2)
                rest = [x for x in gd["nodes"] if x not in (a, b)]
                query(ctx, g, gd, a, b, sorted(rng.sample(rest, rng.randint(0, len(rest)))), gg.key(gd) + "|hist")
            gd = gg.edit_inplace(g, gd, rng)
    ncyc = 0
    for _ in range(ctx.share({"quick": 800, "thorough": 20000}[ctx.tier])):
        gd = random_cyclic(rng, rng.randint(3, 5))
        if gg._acyclic(gd["nodes"], gd["di"]):
            continue
        ncyc += 1
        g = gg.to_nx(gd)
        gkey = gg.key(gd)
        for _q in range(4):
            a, b = rng.sample(gd["nodes"], 2)
            rest = [x for x in gd["nodes"] if x not in (a, b)]
            C = rng.sample(rest, rng.randint(0, len(rest)))
            if rng.random() < 0.2:
                C = C + [rng.choice((a, b))]  # "all C": also one that holds an end node (only symmetry is judged then)
            query(ctx, g, gd, a, b, sorted(C), gkey)
    ctx.extras["cyclic_graphs"] = ncyc
    # symmetry with an end node (or both) in the conditioning set, on acyclic graphs too
    for _ in range(ctx.share({"quick": 400, "thorough": 8000}[ctx.tier])):
        gd = gg.random_admg(rng, rng.randint(2, 5)) if rng.random() < 0.5 else random_cyclic(rng, rng.randint(2, 4))
        g = gg.to_nx(gd)
        gkey = gg.key(gd)
        for _q in range(3):
            a, b = rng.sample(gd["nodes"], 2)
            rest = [x for x in gd["nodes"] if x not in (a, b)]
            C = rng.sample(rest, rng.randint(0, len(rest))) + rng.choice(([a], [b], [a, b]))
            query(ctx, g, gd, a, b, sorted(C), gkey)


def replay(case):
    install()

    class _C:
        def case(self, *a, **k):
            pass

    gd = case["graph"]
    gd = {"nodes": gd["nodes"], "di": gd["di"], "bi": gd["bi"]}
    query(_C(), gg.to_nx(gd), gd, case["a"], case["b"], case["C"], gg.key(gd))
