"""C12 — printing and parsing are inverse; printing is unambiguous (DESIGN §4 C12)."""

from __future__ import annotations

from .. import kernel, mon_dsl
from ..freeinterp import same_meaning
from ..gen import exprs as ge

PROP = "C12"
RULE = (
    "cases = expressions built ONLY through the public builders/operators (P, P[..], PP[pop], PP[pop][..], "
    "Sum[..], *, /, One(), Zero(), Q[..](..), +A/-A value marks, @ subscripts incl. several per variable and "
    "different subscript sets inside one probability), names and population tags from the parser's documented "
    "table (the target tag 'pi*' is not a Python identifier, is outside that table and is excluded), each "
    "distribution mentioning a name at most once, nesting depth <=5. Driver: parse_y0(str(e)) must succeed and "
    "denote the same function (free interpretation, exact); in the sub-family where every division has "
    "division-free operands free of One/Zero and no division is a factor of a product, additionally parsed == e "
    "and str(parsed) == str(e). A post-condition on parse_y0 records every parsed string. non-trivial = the "
    "printed text contains an operator (* or / or Sum) or a subscript; distinct by constructor source."
)
ASSUMPTIONS = ["free interpretation (vmon/freeinterp.py) as the meaning of an expression",
               "sub-family of the object-equality clause read conservatively: operands of a division contain no "
               "division and no One/Zero anywhere"]
MIN_NONTRIVIAL = {"quick": 1000, "thorough": 20000}
REQUIRED = ["eval:parse_y0", "C12:meaning-equal", "C12:object-equality-checked"]
TIMEOUT = {"quick": 900, "thorough": 7200}

OPTS = dict(marks=True, interventions=True, populations=True, constants=True, multiworld=True, qfactors=True,
            sorted_vars=True, reflexive=True)


def in_unnested_family(e) -> bool:
    from y0.dsl import Fraction, One, Product, Sum, Zero

    def has(x, kinds):
        if isinstance(x, kinds):
            return True
        if isinstance(x, Product):
            return any(has(s, kinds) for s in x.expressions)
        if isinstance(x, Sum):
            return has(x.expression, kinds)
        if isinstance(x, Fraction):
            return has(x.numerator, kinds) or has(x.denominator, kinds)
        return False

    def ok(x):
        if isinstance(x, Product):
            return all(not isinstance(s, Fraction) and ok(s) for s in x.expressions)
        if isinstance(x, Sum):
            return ok(x.expression)
        if isinstance(x, Fraction):
            return not has(x.numerator, (Fraction, One, Zero)) and not has(x.denominator, (Fraction, One, Zero)) \
                and ok(x.numerator) and ok(x.denominator)
        return True

    return ok(e)


def classify(e, text, kind):
    return None


def run_expr(ctx, e, origin):
    from y0.parser import parse_y0

    text = str(e)
    case = {"expr": ge.to_src(e), "text": text, "origin": origin}
    kernel.LOG.reset_case(case)
    nt = any(tok in text for tok in (" * ", " / ", "Sum[", "@", "]["))
    try:
        parsed = parse_y0(text)
    except Exception as ex:  # noqa: BLE001
        kernel.count(f"C12:parse-raised-{type(ex).__name__}")
        kernel.violation(PROP, "parses", f"parse_y0({text!r}) raised {type(ex).__name__}: {ex}", case=case,
                         mech=classify(e, text, "parses"))
        ctx.case(case["expr"], nt, sample={"text": text, "parsed": f"!{type(ex).__name__}"})
        return
    st, info = same_meaning(parsed, e, "C12|" + case["expr"][:500])
    kernel.count(f"C12:meaning-{st}")
    if st == "differ":
        kernel.violation(PROP, "meaning", f"{text!r} parses to {parsed} (structure {ge.to_src(parsed)[:300]}) which "
                         f"denotes {info['got']} where the printed object denotes {info['want']} at {info['assignment']}",
                         witness=info, case=case, mech=classify(e, text, "meaning"))
    elif in_unnested_family(e):
        kernel.count("C12:object-equality-checked")
        if parsed != e:
            kernel.violation(PROP, "object-equal", f"{text!r} parses to an object different from the one printed: "
                             f"{ge.to_src(parsed)[:400]} vs {case['expr'][:400]}", case=case,
                             mech=classify(e, text, "object"))
        elif str(parsed) != text:
            kernel.violation(PROP, "text-equal", f"{text!r} re-prints as {str(parsed)!r}", case=case)
    ctx.case(case["expr"], nt, sample={"text": text, "parsed_equal": parsed == e, "unnested_family": in_unnested_family(e)})


def _post_parse(snap, res, s):
    kernel.count("C12:strings-parsed")


def install():
    import y0.parser.internal as pi

    kernel.install_function(pi, "parse_y0", label="parse_y0", post=_post_parse)
    import y0.parser as yp

    if getattr(yp, "parse_y0", None) is not None and not hasattr(yp.parse_y0, "__vmon_original__"):
        yp.parse_y0 = pi.parse_y0


def run_shard(ctx):
    install()
    rng = ctx.rng
    n = ctx.share({"quick": 12000, "thorough": 150000}[ctx.tier])
    kinds = {}
    for i in range(n):
        opts = dict(OPTS)
        if i % 3 == 0:
            opts.update(constants=False)  # the object-equality sub-family needs constant-free divisions
        ast = ge.rand_expr_ast(rng, opts, max_depth=4 if ctx.tier == "quick" else 5)
        try:
            e = ge.build_public(ast)
        except ZeroDivisionError:
            kernel.count("C12:division-by-syntactic-zero-skipped")
            continue
        except Exception as ex:  # noqa: BLE001
            kernel.count(f"C12:builder-raised-{type(ex).__name__}")
            continue
        kinds[type(e).__name__] = kinds.get(type(e).__name__, 0) + 1
        run_expr(ctx, e, "public-operators")
    ctx.extras["top_level_types"] = kinds
    # divisors that the infix operators alone cannot build: Product.safe / Product of fractions as a denominator
    from y0.dsl import Fraction, P, Product, Sum, Variable

    for i in range(ctx.share({"quick": 800, "thorough": 10000}[ctx.tier])):
        names = rng.sample([n for n in ge.NAMES if n.isidentifier() and n != "pi*"], 5)
        a, b, c, d, e_ = (Variable(n) for n in names)
        atoms = [P(a), P(b | a), P(c), P(d | a), P(a, b), P(e_ | c)]
        rng.shuffle(atoms)
        f1, f2, f3 = atoms[0] / atoms[1], atoms[2] / atoms[3], atoms[4] / atoms[5]
        k = i % 5
        try:
            if k == 0:
                ex_ = atoms[4] / Product.safe([f1, f2])
            elif k == 1:
                ex_ = atoms[4] / Product((f1, f2))
            elif k == 2:
                ex_ = Fraction(atoms[5], Product((f1, f2, f3)))
            elif k == 3:
                ex_ = Sum[a](atoms[4]) / Product.safe([f1, Sum[c](f2)])
            else:
                ex_ = Fraction(Product((f1, atoms[4])), Product.safe([f2, f3]))
        except Exception as ex:  # noqa: BLE001
            kernel.count(f"C12:builder-raised-{type(ex).__name__}")
            continue
        run_expr(ctx, ex_, "product-of-fractions-as-divisor")
    # Q-factors that agree in their smallest domain and codomain names (their sort keys tie): three or more in one product
    from y0.dsl import Q

    for i in range(ctx.share({"quick": 400, "thorough": 5000}[ctx.tier])):
        names = rng.sample([n for n in ge.NAMES if n.isidentifier() and n != "pi*"], 6)
        a, b, c, d, w, z = (Variable(n) for n in names)
        lo = min(names[1:])
        qs = [Q[a](b, x) for x in (c, d, w, z)]
        rng.shuffle(qs)
        try:
            ex_ = qs[0]
            for q_ in qs[1: rng.choice([3, 4])]:
                ex_ = ex_ * q_
            if i % 3 == 0:
                ex_ = ex_ * P(c | a)
            if i % 4 == 0:
                ex_ = Sum[d](ex_)
        except Exception as ex:  # noqa: BLE001
            kernel.count(f"C12:builder-raised-{type(ex).__name__}")
            continue
        run_expr(ctx, ex_, "tied-q-factors")
    # deep nesting: e_{n+1} = Sum[B](e_n * P(A, B) / P(A)) (every member denotes P(A)); the printed text must parse at any
    # depth (the meaning is compared up to depth 6 only: the evaluation of nested sums is exponential in the depth)
    if ctx.mine(11) or ctx.mine(12):
        from y0.parser import parse_y0

        A_, B_ = Variable("A"), Variable("B")
        e_n = P(A_)
        for depth in range(1, 96):
            e_n = Sum[B_](e_n * P(A_, B_) / P(A_))
            if depth <= 6 and ctx.mine(11):
                run_expr(ctx, e_n, f"nested-depth-{depth}")
            elif depth in (20, 40, 60, 70, 80, 90, 95):
                text = str(e_n)
                kernel.LOG.reset_case({"expr": f"nested-depth-{depth}", "text": text[:200], "origin": "deep-nesting"})
                kernel.count("C12:deep-nesting-parsed")
                try:
                    parsed = parse_y0(text)
                    if str(parsed) != text:
                        kernel.violation(PROP, "text-equal", f"the depth-{depth} nested sum re-prints differently after parsing",
                                         case={"deep": depth})
                except Exception as ex:  # noqa: BLE001
                    kernel.violation(PROP, "parses", f"parse_y0 of the depth-{depth} nested sum raised {type(ex).__name__}: "
                                     f"{str(ex)[:120]}", case={"deep": depth})


def replay(case):
    install()

    class _C:
        def case(self, *a, **k):
            pass

    if case.get("deep"):
        from y0.dsl import P, Sum, Variable
        from y0.parser import parse_y0

        A_, B_ = Variable("A"), Variable("B")
        e_n = P(A_)
        for _ in range(case["deep"]):
            e_n = Sum[B_](e_n * P(A_, B_) / P(A_))
        try:
            if str(parse_y0(str(e_n))) != str(e_n):
                kernel.violation(PROP, "text-equal", "deep nested sum re-prints differently", case=case)
        except Exception as ex:  # noqa: BLE001
            kernel.violation(PROP, "parses", f"deep nested sum: {type(ex).__name__}", case=case)
        return
    run_expr(_C(), ge.from_src(case["expr"]), case.get("origin", "replay"))
