"""C03 — IDC estimands equal the true conditional interventional distribution (DESIGN §4 C03)."""

from __future__ import annotations

from .. import kernel, mon_dsep, mon_id
from ..gen import graphs as gg
from ..gen import queries as gq

PROP = "C03"
RULE = (
    "cases = (ADMG n<=5 with hostile classes, pairwise disjoint X (possibly empty), Y, Z non-empty) through the "
    "real identify_outcomes(..., conditions=Z) and idc(Identification); post-condition compares the estimand "
    "with P(y,z|do x)/P(z|do x) on K random positive SCMs for ALL assignments (exact rationals); every failure "
    "other than the refusal is recorded by the exception monitor; rule-2 separation queries issued by IDC are "
    "checked by the C04 monitor (record-only here). Hostile: Z containing colliders on bidirected paths, Z "
    "isolated, X empty. non-trivial = estimand returned and at least one rule-2 test evaluated; distinct by "
    "(graph, X, Y, Z)."
)
ASSUMPTIONS = ["O1/O2 reading conventions of DESIGN §3; sampled models, exact equality"]
MIN_NONTRIVIAL = {"quick": 200, "thorough": 4000}
REQUIRED = ["eval:identify_outcomes", "eval:idc", "C03:models-evaluated", "tag:idc.rule2.exchange", "tag:idc.identify"]
TIMEOUT = {"quick": 900, "thorough": 7200}


POOL: list = []


def run_case(ctx, gd, q, via="outcomes", cards=None):
    from y0.algorithm.identify import Identification, Query, idc, identify_outcomes
    from y0.dsl import Variable

    g = gg.to_nx(gd)
    X = {Variable(x) for x in q["X"]}
    Y = {Variable(y) for y in q["Y"]}
    Z = {Variable(z) for z in q["Z"]}
    kernel.LOG.reset_case({"graph": gd, "X": q["X"], "Y": q["Y"], "Z": q["Z"], "via": via,
                           **({"cards": cards} if cards else {})})
    n0 = kernel.LOG.counters.get("eval:are_d_separated", 0)
    res = None
    try:
        res = gq.call_id(g, q, "identify" if via == "idc" else via, prop=PROP)
    except Exception:  # noqa: BLE001 -- judged by the on_raise monitor
        pass
    nsep = kernel.LOG.counters.get("eval:are_d_separated", 0) - n0
    ctx.case(f"{gg.key(gd)}|{q['X']}|{q['Y']}|{q['Z']}", res is not None and nsep > 0,
             sample={"graph": gd, **{k: q[k] for k in "XYZ"}, "estimand": str(res), "rule2_tests": nsep,
                     "tags": sorted(set(kernel.tags()))})


def reuse_history(ctx, steps, q):
    from y0.algorithm.identify import identify_outcomes
    from y0.dsl import Variable

    X = {Variable(gg.fresh(x)) for x in q["X"]}
    Y = {Variable(gg.fresh(y)) for y in q["Y"]}
    Z = {Variable(gg.fresh(z)) for z in q["Z"]}
    intended = {k: sorted(q[k]) for k in "XYZ"}
    for i, gd in enumerate(steps):
        kernel.LOG.reset_case({"graph": gd, **intended, "via": "reused-sets", "caller-reuses-its-sets": True,
                               "intended": intended, "history": steps[: i + 1]})
        kernel.count("C03:calls-with-the-callers-own-sets-reused")
        try:
            res = identify_outcomes(gg.to_nx(gd), X, Y, Z)
        except Exception:  # noqa: BLE001 -- judged by the on_raise monitor
            res = None
        ctx.case(f"{gg.key(gd)}|{q['X']}|{q['Y']}|{q['Z']}|reuse{i}", res is not None)


def run_shard(ctx):
    gg.ALLOW_ODD = True  # node names that are not Python identifiers are node names like any other
    K = {"quick": 2, "thorough": 4}[ctx.tier]
    mon_id.install(semantic=True, K=K, max_card=3)
    mon_dsep.install()
    rng = ctx.rng
    hostile_seen, qcls = {}, {}
    for i in range(ctx.share({"quick": 9000, "thorough": 30000}[ctx.tier])):
        n = rng.choice([3, 4, 4, 5, 5])
        gd = gg.random_admg(rng, n, hostile=rng.choice(gg.HOSTILE + ("bichain", "bichain")))
        q = gq.random_query(rng, gd, with_conditions=True, allow_empty_x=True)
        if q is None or not q["Z"]:
            continue
        if gd["hostile"] == "bichain" and gd["bi"] and rng.random() < 0.6:
            # condition on inner nodes of bidirected paths (colliders between Y and other Z)
            inner = [v for v in gd["nodes"] if sum(v in e for e in gd["bi"]) >= 2 and v not in q["Y"]]
            if inner:
                z = rng.choice(inner)
                q["X"] = [x for x in q["X"] if x != z]
                if z not in q["Z"]:
                    q["Z"] = sorted(set(q["Z"]) | {z})
        hostile_seen[gd["hostile"]] = hostile_seen.get(gd["hostile"], 0) + 1
        qcls["X-empty" if not q["X"] else q["cls"]] = qcls.get("X-empty" if not q["X"] else q["cls"], 0) + 1
        run_case(ctx, gd, q, via=rng.choice(gq.CALL_FORMS))
        if "id.line7" in kernel.tags():
            POOL.append((gd, q))
    # feedback: IDC cases whose trace reached ID's line 7 (rare) are kept and mutated
    fb = {"line7_cases": 0, "line7_then_line6": 0}
    pool = list(POOL)
    for i in range(ctx.share({"quick": 3000, "thorough": 40000}[ctx.tier])):
        if pool and rng.random() < 0.85:
            gd, q = rng.choice(pool)
            gd = gg.mutate(gd, rng)
            if rng.random() < 0.3:
                q = gq.random_query(rng, gd, with_conditions=True, allow_empty_x=True) or q
            if not (set(q["X"]) | set(q["Y"]) | set(q["Z"])) <= set(gd["nodes"]) or not q["Z"]:
                continue
        else:
            gd = gg.random_admg(rng, rng.choice([4, 5, 5]), hostile=rng.choice(["onedistrict", "bichain", "bow", "none"]))
            q = gq.random_query(rng, gd, with_conditions=True, allow_empty_x=True)
            if q is None or not q["Z"]:
                continue
        run_case(ctx, gd, q)
        tg = kernel.tags()
        if "id.line7" in tg:
            fb["line7_cases"] += 1
            if "id.line6" in tg[tg.index("id.line7"):]:
                fb["line7_then_line6"] += 1
            if len(pool) < 400:
                pool.append((gd, q))
            else:
                pool[rng.randrange(len(pool))] = (gd, q)
    ctx.extras["feedback"] = fb
    # wide graphs: a small core at the usual densities embedded in 10..14 nodes; the padding nodes are one-valued
    # constants in the exact models (see C01), so every estimand is still evaluated
    wide = {"cases": 0}
    for _ in range(ctx.share({"quick": 500, "thorough": 8000}[ctx.tier])):
        core = gg.random_admg(rng, rng.choice([3, 4, 4, 5]), hostile=rng.choice(gg.HOSTILE + ("bichain",)))
        q = gq.random_query(rng, core, with_conditions=True, allow_empty_x=True)
        if q is None or not q["Z"]:
            continue
        if wide["cases"] % 8 == 7:
            gd, pad = gg.embed_wide(core, rng, rng.choice([64, 65, 100]), p_di=0.02, p_bi=0.01)
        else:
            gd, pad = gg.embed_wide(core, rng, rng.randint(10, 14))
        wide["cases"] += 1
        run_case(ctx, gd, q, via=rng.choice(("outcomes", "identify", "from_parts", "from_expression")),
                 cards={w: 1 for w in pad})
    ctx.extras["wide_graphs"] = wide
    # edit histories: the same graph object is queried, edited in place and queried again
    from y0.algorithm.identify import identify_outcomes
    from y0.dsl import Variable

    for _ in range(ctx.share({"quick": 160, "thorough": 1500}[ctx.tier])):
        gd = gg.random_admg(rng, rng.randint(3, 5))
        g = gg.to_nx(gd)
        for _s in range(8):
            q = gq.random_query(rng, gd, with_conditions=True, allow_empty_x=True)
            if q and q["Z"]:
                kernel.LOG.reset_case({"graph": gd, "X": q["X"], "Y": q["Y"], "Z": q["Z"], "via": "edit-history"})
                try:
                    res = identify_outcomes(g, {Variable(x) for x in q["X"]}, {Variable(y) for y in q["Y"]},
                                            {Variable(z) for z in q["Z"]})
                except Exception:  # noqa: BLE001
                    res = None
                ctx.case(f"{gg.key(gd)}|{q['X']}|{q['Y']}|{q['Z']}|hist", res is not None)
            if rng.random() < 0.6:
                gd = gg.edit_inplace(g, gd, rng)
    # the caller keeps its own set objects: X, Y, Z are built once and handed to several calls on different graphs
    # over the same nodes; every answer is judged against what the caller put into the sets
    for _ in range(ctx.share({"quick": 1600, "thorough": 12000}[ctx.tier])):
        gd = gg.random_admg(rng, rng.randint(3, 5), hostile=rng.choice(gg.HOSTILE + ("bichain",)))
        q = gq.random_query(rng, gd, with_conditions=True, allow_empty_x=True)
        if q is None or not q["Z"]:
            continue
        steps = [{"nodes": gd["nodes"], "di": gd["di"], "bi": gd["bi"]}]
        for _s in range(3):
            if _s == 0:
                gd2 = gg.mutate(steps[-1], rng)
                if not set(gd2["nodes"]) >= set(q["X"]) | set(q["Y"]) | set(q["Z"]):
                    continue
            else:  # another diagram over the same variables
                order = list(gd["nodes"])
                rng.shuffle(order)
                pairs = [(a, b) for i, a in enumerate(order) for b in order[i + 1:]]
                gd2 = {"nodes": list(gd["nodes"]), "di": [list(e) for e in pairs if rng.random() < 0.45],
                       "bi": [sorted(e) for e in pairs if rng.random() < 0.25]}
            steps.append(gd2)
        reuse_history(ctx, steps, q)
    ctx.extras["hostile_classes"] = hostile_seen
    ctx.extras["query_classes"] = qcls


def replay(case):
    mon_id.install(semantic=True, K=4, max_card=3)
    mon_dsep.install()

    class _C:
        def case(self, *a, **k):
            pass

    if case.get("history"):
        reuse_history(_C(), [{"nodes": h["nodes"], "di": h["di"], "bi": h["bi"]} for h in case["history"]],
                      {k: case[k] for k in "XYZ"})
        return
    gd = case["graph"]
    gd = {"nodes": gd["nodes"], "di": gd["di"], "bi": gd["bi"]}
    run_case(_C(), gd, {"X": case["X"], "Y": case["Y"], "Z": case["Z"]}, via=case.get("via", "outcomes"), cards=case.get("cards"))


def install_for_suite():
    mon_id.install(semantic=True, K=2, max_card=3)
