"""C17 — Tian–Pearl c-factor identification returns the true c-factor (DESIGN §4 C17)."""

from __future__ import annotations

import hashlib
import itertools as itt
import random

from .. import kernel, mon_id
from ..denote import Denoter, Unbound, Undefined, free_variables
from ..gen import graphs as gg
from ..refgraph import RG
from ..refid import identify_cfactor

PROP = "C17"
RULE = (
    "cases = (ADMG n<=5 with hostile classes, district T of G, non-empty C subset of T with G[C] bidirected-"
    "connected, a random valid topological order of G, Q[T] given as the Lemma-1 product of conditionals or, when "
    "T=V, as the plain joint, or - when T closes the order - as the single conditional P(T | rest); plain or population-"
    "tagged) through the real identify_district_variables; compute_c_factor on every district of "
    "every ancestral sub-graph. Post-conditions: the returned expression evaluated on K random positive SCMs "
    "(exact rationals) must equal Q[C](v) = P(C=c | do(V-C = v-c)) for ALL value assignments v of V; "
    "assume/guarantee contracts on the internal lemma routines (compute_c_factor, Lemma 1, Lemma 4, Lemma 3 / "
    "compute_ancestral_set_q_value): whenever the expression passed in denotes Q of the stated set in the model "
    "(checked numerically) and the set-theoretic precondition of the lemma holds, the expression returned must "
    "denote Q of the requested set. Failures (None) are compared with the reference set recursion (counted). "
    "non-trivial = an expression was returned for C != T or a lemma contract was evaluated with a Sum/Fraction "
    "input; distinct by (graph, T, C, order)."
)
ASSUMPTIONS = ["O1/O2 (vmon/scm.py, vmon/denote.py); models sampled, equality exact",
               "Q[H](v) := P(H=h | do(V-H = v-h)) in the model (Tian & Pearl 2003, eq. 36)"]
MIN_NONTRIVIAL = {"quick": 300, "thorough": 6000}
REQUIRED = ["eval:identify_district_variables", "eval:compute_c_factor", "eval:compute_ancestral_set_q_value",
            "C17:answers-compared", "C17:lemma-guarantees-checked", "C17:failures-agree-with-reference"]
TIMEOUT = {"quick": 900, "thorough": 7200}

CTX: dict = {"ref": None, "models": None, "names": None, "K": 2}


def set_graph(ref: RG, tag: str, K: int):
    CTX.update(ref=ref, names=sorted(v.name for v in ref.V), K=K)
    CTX["models"] = mon_id.models_for(ref, tag, K, 3)


def q_value(m, H, v):
    """Q[H](v) in model m."""
    return m.p({h: v[h] for h in H}, {w: v[w] for w in v if w not in H})


def denotes_q(expr, H, want_free=True):
    """Does expr denote Q[H] in every context model, for every assignment?  -> (verdict, witness)
    verdict in {"yes", "no", "unbound", "undefined"}"""
    names = CTX["names"]
    Hn = sorted(x.name for x in H)
    try:
        fv = free_variables(expr)
    except TypeError:
        return "unbound", "uninterpretable node"
    if not fv <= set(names):
        return "no", f"mentions {sorted(fv - set(names))} outside the graph"
    n = 0
    for h, m in CTX["models"]:
        # a population tag only names the distribution the routines work on: every tag denotes the context model
        from ..denote import TARGET

        fam = {TARGET: m, "π1": m, "π2": m}
        den = Denoter(fam, ref={x: 0 for x in names}, alt={x: 1 for x in names})
        for vals in itt.product(*[m.values(x) for x in names]):
            v = dict(zip(names, vals))
            try:
                got = den.value(expr, v)
            except Undefined:
                continue
            except Unbound as u:
                return "unbound", u.name
            want = q_value(m, Hn, v)
            n += 1
            if got != want:
                return "no", {"assignment": v, "got": str(got), "want": str(want), "model_seed": h[:12], "cards": m.card}
    return ("yes", n) if n else ("undefined", 0)


def _case():
    return kernel.LOG.case


def _is_cc(ref: RG, district, within):
    sub = ref.subgraph(within)
    return frozenset(district) in sub.districts()


def _post_identify(snap, res, *, input_variables, input_district, district_probability, graph, topo, **_more):
    if CTX["ref"] is None or snap is None or not snap["top"]:
        return
    from y0.dsl import Expression

    ref = CTX["ref"]
    C, T = frozenset(input_variables), frozenset(input_district)
    want_ok = identify_cfactor(ref, C, T)
    if res is None:
        kernel.count("C17:failures-agree-with-reference" if not want_ok else "C17:failure-although-reference-identifies")
        return
    if not isinstance(res, Expression):
        kernel.violation(PROP, "type", f"identify_district_variables returned {type(res).__name__}", case=_case())
        return
    verdict, info = denotes_q(res, C)
    kernel.count("C17:answers-compared")
    kernel.count(f"C17:answer-{verdict}")
    if verdict in ("no", "unbound"):
        if not want_ok:
            kernel.count("C17:answer-where-reference-says-unidentifiable")
        kernel.violation(PROP, "c-factor-value",
                         f"identify_district_variables(C={sorted(map(str, C))}, T={sorted(map(str, T))}) returned {res}, "
                         f"which does not denote Q[C]: {info}; graph {mon_id.gd_of(ref)} order {[str(t) for t in topo]}",
                         witness=info if isinstance(info, dict) else {"why": info}, case=_case())
    elif verdict == "yes" and not want_ok:
        kernel.monitor_error("c17.oracle-suspect", RuntimeError(f"answer correct although reference says unidentifiable: {_case()}"))


_depth = {"n": 0}


def _pre_identify(**kw):
    _depth["n"] += 1
    return {"top": _depth["n"] == 1}


def _post_identify_wrap(snap, res, **kw):
    _depth["n"] -= 1
    _post_identify(snap, res, **kw)


def _raise_identify(snap, exc, **kw):
    _depth["n"] -= 1
    if snap and snap["top"] and CTX["ref"] is not None:
        kernel.violation(PROP, "total", f"identify_district_variables raised {type(exc).__name__}: {exc} on a valid input "
                         f"{_case()}", case=_case())


def _guarantee(label, res, inp, in_set, out_set, precondition_ok):
    """Assume/guarantee: inp denotes Q[in_set]  and precondition  =>  res denotes Q[out_set]."""
    if CTX["ref"] is None:
        return
    if not precondition_ok:
        kernel.count(f"C17:{label}:set-precondition-not-met")
        return
    a, _ = denotes_q(inp, in_set)
    if a != "yes":
        kernel.count(f"C17:{label}:assumption-not-met-{a}")
        return
    g, info = denotes_q(res, out_set)
    kernel.count("C17:lemma-guarantees-checked")
    kernel.count(f"C17:{label}:guarantee-{g}")
    if g in ("no", "unbound"):
        kernel.violation(PROP, label, f"{label}: input {inp} denotes Q[{sorted(map(str, in_set))}] but the result {res} "
                         f"does not denote Q[{sorted(map(str, out_set))}]: {info}; graph {mon_id.gd_of(CTX['ref'])}",
                         witness=info if isinstance(info, dict) else {"why": info}, case=_case())


def _post_cfactor(snap, res, *, district, subgraph_variables, subgraph_probability, graph_topo):
    ref = CTX["ref"]
    if ref is None:
        return
    ok = set(district) <= set(subgraph_variables) <= set(ref.V) and _is_cc(ref, district, subgraph_variables)
    # Q[H] is computable from Q[A] by Lemma 1/4 for a c-component H of G[A]; with a plain probability as input the
    # routine uses Lemma 1, which is stated for the joint of an *ancestral* set
    inp = subgraph_probability
    from y0.dsl import Probability, Sum

    if isinstance(inp, Probability) and not inp.parents and ok:
        extra = [v for v in inp.children if v not in set(subgraph_variables)]
        if extra:
            # the joint of a LARGER set together with the ancestral set's variables (``graph.joint_probability()`` and a
            # smaller ancestral set, the form the library's own tests use): Lemma 1 works in the margin of
            # ``subgraph_variables``, so the input stands for the marginal over them
            kernel.count("C17:compute_c_factor:joint-over-a-superset-of-the-ancestral-set")
            with kernel.quiet():
                inp = Sum.safe(inp, extra)
    _guarantee("compute_c_factor", res, inp, set(subgraph_variables), set(district), ok)


def _post_lemma3(snap, res, *, ancestral_set, subgraph_variables, subgraph_probability, graph_topo):
    ref = CTX["ref"]
    if ref is None:
        return
    A, T = set(ancestral_set), set(subgraph_variables)
    ok = A <= T <= set(ref.V) and set(ref.subgraph(T).ancestors_inclusive(A)) == A
    _guarantee("compute_ancestral_set_q_value", res, subgraph_probability, T, A, ok)


def install():
    import y0.algorithm.tian_id as t

    kernel.install_function(t, "identify_district_variables", label="identify_district_variables",
                            pre=_pre_identify, post=_post_identify_wrap, on_raise=_raise_identify)
    kernel.install_function(t, "compute_c_factor", label="compute_c_factor", post=_post_cfactor)
    kernel.install_function(t, "compute_ancestral_set_q_value", label="compute_ancestral_set_q_value", post=_post_lemma3)


def random_topo(ref: RG, rng):
    pm = ref.parents_map()
    cm = ref.children_map()
    indeg = {v: len(pm[v]) for v in ref.V}
    ready = sorted([v for v in ref.V if indeg[v] == 0], key=str)
    out = []
    while ready:
        x = ready.pop(rng.randrange(len(ready)))
        out.append(x)
        for c in sorted(cm[x], key=str):
            indeg[c] -= 1
            if indeg[c] == 0:
                ready.append(c)
    return out


def run_graph(ctx, gd, rng, K):
    from y0.algorithm.tian_id import (compute_c_factor, compute_c_factor_conditioning_on_topological_predecessors,
                                      identify_district_variables)
    from y0.dsl import P

    g = gg.to_nx(gd)
    if gd["di"] and rng.random() < 0.25:
        # history: the caller used the graph object before its last directed edge existed (sub-graphs, districts), then
        # added that edge through the networkx member; everything below must see the graph as it is now
        from y0.dsl import Variable as _V

        u_, v_ = gd["di"][-1]
        g = gg.to_nx(dict(gd, di=gd["di"][:-1]))
        for _w in range(3):
            S_ = {_V(n) for n in rng.sample(gd["nodes"], rng.randint(1, len(gd["nodes"])))}
            with kernel.quiet():
                g.subgraph(S_)
                g.ancestors_inclusive(S_)
                g.districts()
        g.directed.add_edge(_V(u_), _V(v_))
        kernel.count("C17:graphs-edited-after-earlier-queries")
        CTX["history"] = [u_, v_]
    else:
        CTX["history"] = None
    ref = gg.to_rg(gd)
    tag = gg.key(gd)
    CTX["ref"] = None
    set_graph(ref, tag, K)
    if not CTX["models"]:
        return
    topo = random_topo(ref, rng)
    from y0.dsl import PP, Variable

    # the distribution the routines work on: the plain joint, or a population-tagged one (as the transport code passes)
    tagged = rng.random() < 0.35
    mk = PP[Variable("π1")] if tagged else P
    joint = mk(topo)
    districts = sorted(ref.districts(), key=lambda d: sorted(map(str, d)))
    for T in districts:
        Tl = [v for v in topo if v in T]
        forms = ["lemma1"]
        # Q[T] is an expression; the topological order it was derived along need not be the one IDENTIFY is given
        topo2 = random_topo(ref, rng)
        if topo2 != topo:
            forms += ["lemma1-other-order"] * 2
        if len(districts) == 1:
            forms.append("joint")
        k0 = len(topo) - len(Tl)
        if 0 < k0 and set(topo[k0:]) == set(Tl):
            # T closes the topological order: Q[T] = prod P(t | predecessors) = P(T | the rest), one conditional term
            forms += ["suffix-conditional"] * 2
        subsets = [c for r in range(1, len(Tl) + 1) for c in itt.combinations(Tl, r)
                   if len(ref.subgraph(c).districts()) == 1]
        rng.shuffle(subsets)
        for C in subsets[:6]:
            form = rng.choice(forms)
            kernel.LOG.reset_case({"graph": gd, "T": sorted(v.name for v in T), "C": sorted(v.name for v in C),
                                   "topo": [v.name for v in topo], "form": form, "tagged": tagged,
                                   **({"topo2": [v.name for v in topo2]} if form == "lemma1-other-order" else {}),
                                   **({"history": CTX["history"]} if CTX.get("history") else {})})
            try:
                if form == "lemma1":
                    with kernel.quiet():
                        qT = compute_c_factor_conditioning_on_topological_predecessors(district=Tl, graph_probability=joint,
                                                                                       topo=topo)
                elif form == "lemma1-other-order":
                    kernel.count("C17:Q[T]-derived-along-another-topological-order")
                    with kernel.quiet():
                        qT = compute_c_factor_conditioning_on_topological_predecessors(
                            district=[v for v in topo2 if v in T], graph_probability=mk(topo2), topo=topo2)
                elif form == "suffix-conditional":
                    from y0.dsl import Distribution

                    qT = joint._new(Distribution(children=tuple(Tl), parents=tuple(topo[:k0])))
                else:
                    qT = joint
                res = identify_district_variables(input_variables=frozenset(C), input_district=frozenset(T),
                                                  district_probability=qT, graph=g, topo=topo)
            except Exception:  # noqa: BLE001 -- judged by the on_raise monitor
                res = None
            ctx.case(f"{tag}|{sorted(map(str, T))}|{sorted(map(str, C))}|{[str(t) for t in topo]}|{form}",
                     res is not None and frozenset(C) != frozenset(T),
                     sample={"graph": gd, "T": sorted(map(str, T)), "C": sorted(map(str, C)), "topo": [str(t) for t in topo],
                             "Q[T]": form, "answer": str(res)})
    # the c-factor routine on every district of a random ancestral set, from its joint (Lemma 1)
    A = ref.ancestors_inclusive(set(rng.sample(sorted(ref.V, key=str), rng.randint(1, len(ref.V)))))
    Al = [v for v in topo if v in A]
    for D in sorted(ref.subgraph(A).districts(), key=lambda d: sorted(map(str, d))):
        kernel.LOG.reset_case({"graph": gd, "A": [v.name for v in Al], "district": sorted(v.name for v in D),
                               "topo": [v.name for v in topo], "form": "cfactor",
                               **({"history": CTX["history"]} if CTX.get("history") else {})})
        # Q[A] of an ancestral set A is P(A): as a plain probability (Lemma 1), as a sum over the rest of the joint,
        # and as a chain-rule product (both Lemma 4)
        from y0.dsl import Product, Sum

        forms = {"plain": mk(Al)}
        rest = [v for v in topo if v not in A]
        if rest:
            forms["sum"] = Sum.safe(mk(topo), rest)
            forms["whole-joint"] = mk(topo)
        if len(Al) >= 2:
            forms["product"] = Product.safe(mk(Al[i] | Al[:i]) if i else mk(Al[0]) for i in range(len(Al)))
            # the chain rule holds along ANY order of A, also one that is not a topological order of the graph
            sh = Al[:]
            rng.shuffle(sh)
            forms["product-any-order"] = Product.safe(mk(sh[i] | sh[:i]) if i else mk(sh[0]) for i in range(len(sh)))
            CTX["any_order"] = [v.name for v in sh]
        for fname, qa in forms.items():
            kernel.LOG.case["qa_form"] = fname
            kernel.LOG.case["tagged"] = tagged
            kernel.LOG.case["any_order"] = CTX.get("any_order")
            try:
                compute_c_factor(district=[v for v in topo if v in D], subgraph_variables=Al, subgraph_probability=qa,
                                 graph_topo=topo)
            except Exception as e:  # noqa: BLE001
                kernel.violation(PROP, "total", f"compute_c_factor raised {type(e).__name__}: {e}", case=dict(kernel.LOG.case))
    CTX["ref"] = None


def nested_district(d):
    """One district that IDENTIFY has to peel d+1 times: C with parents A1..Ad, Z_k -> A_{k+1}, C -> Z_d, and
    A_k <-> Z_k <-> C."""
    a = [f"A{k}" for k in range(1, d + 1)]
    z = [f"Z{k}" for k in range(1, d + 1)]
    di = [[x, "C"] for x in a] + [[z[k - 1], a[k]] for k in range(1, d)] + [["C", z[d - 1]]]
    bi = [[a[k], z[k]] for k in range(d)] + [[z[k], "C"] for k in range(d)]
    return {"nodes": ["C"] + a + z, "di": di, "bi": bi, "hostile": f"nested-district-{d}"}


def run_nested(ctx, d, rng, K):
    """Q[{C}] from the joint of a d-times nested district (totality at any depth; the value where the exact models fit)."""
    from y0.algorithm.tian_id import identify_district_variables
    from y0.dsl import P, Variable

    gd = nested_district(d)
    g = gg.to_nx(gd)
    ref = gg.to_rg(gd)
    CTX["ref"] = None
    set_graph(ref, gg.key(gd), K if d <= 2 else 1)
    topo = random_topo(ref, rng)
    kernel.LOG.reset_case({"graph": gd, "T": sorted(v.name for v in ref.V), "C": ["C"], "topo": [v.name for v in topo],
                           "form": "joint", "tagged": False})
    kernel.count(f"C17:nested-district-depth-{d}")
    res = None
    try:
        res = identify_district_variables(input_variables=frozenset({Variable("C")}), input_district=frozenset(ref.V),
                                          district_probability=P(topo), graph=g, topo=topo)
    except Exception:  # noqa: BLE001 -- judged by the on_raise monitor
        pass
    ctx.case(f"nested|{d}|{[str(t) for t in topo]}", res is not None, sample={"graph": gd, "C": ["C"], "answer_chars": len(str(res))})
    CTX["ref"] = None


def run_shard(ctx):
    gg.ALLOW_ODD = True  # node names that are not Python identifiers are node names like any other
    install()
    rng = ctx.rng
    K = {"quick": 2, "thorough": 3}[ctx.tier]
    hostile = {}
    for i in range(ctx.share({"quick": 640, "thorough": 6000}[ctx.tier])):
        n = rng.choice([3, 4, 4, 5, 5])
        gd = gg.random_admg(rng, n, hostile=rng.choice(["onedistrict", "bichain", "bow", "none", "multidistrict", "bionly",
                                                         "isolated", "names_unsorted", "names_prefixed"]))
        hostile[gd["hostile"]] = hostile.get(gd["hostile"], 0) + 1
        run_graph(ctx, gd, rng, K)
    ctx.extras["hostile_classes"] = hostile
    # deeply nested districts (IDENTIFY recursion depth 2..5)
    for d in (1, 2):
        run_nested(ctx, d, rng, K)
    if ctx.shard % 4 == 1:
        run_nested(ctx, 3, rng, K)
    if ctx.mine(7):
        run_nested(ctx, 4, rng, K)


def replay(case):
    install()
    from y0.algorithm.tian_id import (compute_c_factor, compute_c_factor_conditioning_on_topological_predecessors,
                                      identify_district_variables)
    from y0.dsl import P, Variable

    gd = case["graph"]
    gd = {"nodes": gd["nodes"], "di": gd["di"], "bi": gd["bi"]}
    g = gg.to_nx(gd)
    if case.get("history"):
        # the graph object was used before its last directed edge was added through the networkx member
        import random as _r

        u_, v_ = case["history"]
        g = gg.to_nx(dict(gd, di=[e for e in gd["di"] if list(e) != [u_, v_]]))
        rr = _r.Random(0)
        for _w in range(6):
            S_ = {Variable(n) for n in rr.sample(gd["nodes"], rr.randint(1, len(gd["nodes"])))}
            with kernel.quiet():
                g.subgraph(S_)
                g.ancestors_inclusive(S_)
                g.districts()
        g.directed.add_edge(Variable(u_), Variable(v_))
    ref = gg.to_rg(gd)
    set_graph(ref, gg.key(gd), 3)
    topo = [Variable(n) for n in case["topo"]]
    kernel.LOG.reset_case(case)
    if case.get("form") == "cfactor":
        Al = [Variable(n) for n in case["A"]]
        from y0.dsl import Product, Sum

        from y0.dsl import PP

        mk = PP[Variable("π1")] if case.get("tagged") else P
        form = case.get("qa_form", "plain")
        rest = [v for v in topo if v not in Al]
        qa = mk(Al)
        if form == "sum" and rest:
            qa = Sum.safe(mk(topo), rest)
        elif form == "whole-joint":
            qa = mk(topo)
        elif form == "product" and len(Al) >= 2:
            qa = Product.safe(mk(Al[i] | Al[:i]) if i else mk(Al[0]) for i in range(len(Al)))
        elif form == "product-any-order" and case.get("any_order"):
            sh = [Variable(n) for n in case["any_order"]]
            qa = Product.safe(mk(sh[i] | sh[:i]) if i else mk(sh[0]) for i in range(len(sh)))
        compute_c_factor(district=[v for v in topo if v.name in case["district"]], subgraph_variables=Al,
                         subgraph_probability=qa, graph_topo=topo)
        return
    T = frozenset(Variable(n) for n in case["T"])
    C = frozenset(Variable(n) for n in case["C"])
    from y0.dsl import PP, Distribution

    mk = PP[Variable("π1")] if case.get("tagged") else P
    Tl = [v for v in topo if v in T]
    if case.get("form") == "joint":
        qT = mk(topo)
    elif case.get("form") == "suffix-conditional":
        qT = mk(topo)._new(Distribution(children=tuple(Tl), parents=tuple(topo[: len(topo) - len(Tl)])))
    elif case.get("form") == "lemma1-other-order":
        topo2 = [Variable(n) for n in case["topo2"]]
        with kernel.quiet():
            qT = compute_c_factor_conditioning_on_topological_predecessors(
                district=[v for v in topo2 if v in T], graph_probability=mk(topo2), topo=topo2)
    else:
        with kernel.quiet():
            qT = compute_c_factor_conditioning_on_topological_predecessors(district=Tl, graph_probability=mk(topo),
                                                                           topo=topo)
    try:
        identify_district_variables(input_variables=C, input_district=T, district_probability=qT, graph=g, topo=topo)
    except Exception:  # noqa: BLE001
        pass
