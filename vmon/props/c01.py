"""C01 — ID estimands equal the true interventional distribution (DESIGN §4 C01)."""

from __future__ import annotations

from .. import kernel, mon_id
from ..gen import graphs as gg
from ..gen import queries as gq

PROP = "C01"
RULE = (
    "cases = (ADMG n<=5 with hostile classes, disjoint non-empty X,Y) driven through the real identify_outcomes "
    "(and identify(Identification) built directly, with from_parts, from_expression or Query.from_str, and the single-Variable call form, on shares of the cases; graphs built through add_*, from_edges, from_str_edges, from_adj, from_str_adj; and the 50 example graphs of y0.examples with random "
    "queries); post-condition builds K random positive SCMs (exact rational arithmetic, cards 2-3, per-edge or "
    "per-clique latents) and compares the estimand with P(y|do x) for ALL assignments of X, Y and every other "
    "free variable. non-trivial = an estimand was returned and the trace contains line 4, 6 or 7; distinct by "
    "(graph, X, Y)."
)
ASSUMPTIONS = ["O1/O2 (vmon/scm.py, vmon/denote.py) with the reading conventions of DESIGN §3",
               "models are sampled (K per case); equality is exact, no tolerance"]
MIN_NONTRIVIAL = {"quick": 150, "thorough": 3000}
REQUIRED = ["eval:identify_outcomes", "C01:models-evaluated", "tag:id.line4", "tag:id.line6", "tag:id.line7"]
TIMEOUT = {"quick": 900, "thorough": 7200}


POOL: list = []


def run_case(ctx, gd, q, via="outcomes", cards=None):
    from y0.algorithm.identify import Identification, Query, identify, identify_outcomes
    from y0.algorithm.identify.utils import Unidentifiable
    from y0.dsl import Variable

    g = gg.to_nx(gd)
    X = {Variable(x) for x in q["X"]}
    Y = {Variable(y) for y in q["Y"]}
    kernel.LOG.reset_case({"graph": gd, "X": q["X"], "Y": q["Y"], "via": via, **({"cards": cards} if cards else {})})
    res = None
    try:
        res = gq.call_id(g, {"X": q["X"], "Y": q["Y"], "Z": []}, via, prop=PROP)
    except Exception:  # noqa: BLE001  (totality is C02's clause; the monitor has logged it)
        kernel.count("C01:driver-saw-exception")
    tags = set(kernel.tags())
    nt = res is not None and bool(tags & {"id.line4", "id.line6", "id.line7"})
    ctx.case(f"{gg.key(gd)}|{q['X']}|{q['Y']}", nt,
             sample={"graph": gd, "X": q["X"], "Y": q["Y"], "estimand": str(res), "lines": sorted(tags)})
    return res


def _edit_histories(ctx, rng):
    from y0.algorithm.identify import identify_outcomes
    from y0.dsl import Variable

    for _ in range(ctx.share({"quick": 160, "thorough": 1500}[ctx.tier])):
        gd = gg.random_admg(rng, rng.randint(3, 5))
        g = gg.to_nx(gd)
        for _s in range(8):
            q = gq.random_query(rng, gd)
            if q:
                kernel.LOG.reset_case({"graph": gd, "X": q["X"], "Y": q["Y"], "via": "edit-history"})
                try:
                    res = identify_outcomes(g, {Variable(x) for x in q["X"]}, {Variable(y) for y in q["Y"]})
                except Exception:  # noqa: BLE001
                    res = None
                ctx.case(f"{gg.key(gd)}|{q['X']}|{q['Y']}|hist", res is not None and bool(set(kernel.tags()) & {"id.line4", "id.line6", "id.line7"}))
            if rng.random() < 0.6:
                gd = gg.edit_inplace(g, gd, rng)
    # one Identification object kept by the caller: identify it, edit ITS graph in place, identify the same object again
    from y0.algorithm.identify import Identification, identify
    from y0.algorithm.identify.utils import Unidentifiable

    for _ in range(ctx.share({"quick": 160, "thorough": 1500}[ctx.tier])):
        gd = gg.random_admg(rng, rng.randint(3, 5))
        q = gq.random_query(rng, gd)
        if not q:
            continue
        ident = Identification.from_parts(outcomes={Variable(y) for y in q["Y"]}, treatments={Variable(x) for x in q["X"]},
                                          graph=gg.to_nx(gd))
        for _s in range(5):
            kernel.LOG.reset_case({"graph": gd, "X": q["X"], "Y": q["Y"], "via": "kept-identification"})
            res = None
            try:
                res = identify(ident)
            except Unidentifiable:
                pass
            except Exception:  # noqa: BLE001
                kernel.count("C01:driver-saw-exception")
            ctx.case(f"{gg.key(gd)}|{q['X']}|{q['Y']}|kept", res is not None and bool(set(kernel.tags()) & {"id.line4", "id.line6", "id.line7"}))
            for _e in range(4):
                gd2 = gg.edit_inplace(ident.graph, gd, rng)
                if (set(q["X"]) | set(q["Y"])) <= set(gd2["nodes"]):
                    gd = gd2
                    break
                # (edit_inplace never removes nodes, so this cannot happen; kept as a guard)


def planted_7_2_6(rng):
    """a -> z1 -> b -> d -> z2 -> y <- t with a <-> b <-> y, d <-> a, t <-> d and the query P(a, b, y | do(d, t, z1, z2)):
    line 7 (district {a, b, y} inside {a, b, y, d, t}), then line 2, then line 6 on a graph in which a and b are no longer
    ordered by any directed path - their order is a tie that names and hash seeds break.  Names are drawn at random so
    that the tie falls both ways over a run."""
    pool = ["V%d" % i for i in range(12)] + ["A", "B", "M", "R", "W", "X1", "X10", "X2"]
    a, z1, b, d, z2, y, t = rng.sample(pool, 7)
    gd = {"nodes": rng.sample([a, z1, b, d, z2, y, t], 7),
          "di": [[a, z1], [z1, b], [b, d], [d, z2], [z2, y], [t, y]],
          "bi": [[a, b], [b, y], [d, a], [t, d]], "hostile": "planted-7-2-6"}
    for e in (gd["di"], gd["bi"]):
        rng.shuffle(e)
    return gd, {"X": sorted([d, t, z1, z2]), "Y": sorted([a, b, y]), "cls": "planted-7-2-6"}


def planted_7_2_7(rng):
    """a -> x1 -> m -> y, x1 -> y, x2 -> m, a <-> x2, a <-> m, x2 <-> y with P(y | do(x1, x2)): the recursion passes line 7
    twice in one chain (7 -> 2 -> 7), and the second pass works on a distribution that is no longer the observational
    one.  A few extra edges and a changed query keep the neighbourhood of the family in play."""
    pool = ["V%d" % i for i in range(12)] + ["A", "B", "M", "R", "W", "X1", "X10", "X2"]
    a, x1, m, y, x2 = rng.sample(pool, 5)
    di = [[a, x1], [x1, m], [m, y], [x1, y], [x2, m]]
    bi = [[a, x2], [a, m], [x2, y]]
    if rng.random() < 0.3:
        bi.append(rng.choice([[x1, x2], [a, y]]))
    if rng.random() < 0.2:
        di.append([a, x2])
    gd = {"nodes": rng.sample([a, x1, m, y, x2], 5), "di": di, "bi": bi, "hostile": "planted-7-2-7"}
    q = {"X": sorted([x1, x2]), "Y": [y], "cls": "planted-7-2-7"}
    if rng.random() < 0.25:
        q = {"X": sorted([x1, x2]), "Y": sorted([y, m]), "cls": "planted-7-2-7"}
    return gd, q


def planted_many_treatments(rng):
    """a -> m -> y with m <-> y (the front-door skeleton without the a <-> y arc) and 21..30 further parents r_i of y,
    all of them treatments: line 6 is reached on a graph whose last node has dozens of predecessors, and the district of
    y has a member (m) whose parent (a) is not a parent of y.  -> (graph, query, constants)"""
    k = rng.randint(21, 30)
    a, m, y = rng.sample(["A", "M", "Y", "V1", "V2", "V3", "B"], 3)
    rs = [f"R{i:02d}" for i in range(k)]
    di = [[a, m], [m, y]] + [[r, y] for r in rs]
    bi = [[m, y]]
    if rng.random() < 0.3:
        bi.append([a, rs[0]])
    if rng.random() < 0.3:
        di.append([rs[1], m])
    nodes = [a, m, y] + rs
    rng.shuffle(nodes)
    gd = {"nodes": nodes, "di": di, "bi": bi, "hostile": "planted-many-treatments"}
    live = set(rng.sample(rs, 2))
    return gd, {"X": sorted([a] + rs), "Y": [y], "cls": "planted-many-treatments"}, {r: 1 for r in rs if r not in live}


def example_graphs():
    import y0.examples as ex

    out = []
    for e in getattr(ex, "examples", []):
        g = e.graph
        try:
            nodes = [n.name for n in g.nodes()]
            if not (2 <= len(nodes) <= 7):
                continue
            gd = {"nodes": nodes, "di": [[u.name, v.name] for u, v in g.directed.edges()],
                  "bi": [[u.name, v.name] for u, v in g.undirected.edges()], "hostile": "example:" + e.name}
            if gg._acyclic(gd["nodes"], gd["di"]):
                out.append(gd)
        except Exception:  # noqa: BLE001
            continue
    return out


def run_shard(ctx, K=None):
    gg.ALLOW_ODD = True  # node names that are not Python identifiers are node names like any other
    K = K or {"quick": 2, "thorough": 4}[ctx.tier]
    mon_id.install(semantic=True, K=K, max_card=3)
    mon_id.CONFIG["max_nodes_semantic"] = 6
    rng = ctx.rng
    n_cases = ctx.share({"quick": 5000, "thorough": 40000}[ctx.tier])
    hostile_seen = {}
    qcls = {}
    for i in range(n_cases):
        n = rng.choice([3, 4, 4, 5, 5, 5])
        gd = gg.random_admg(rng, n)
        q = gq.random_query(rng, gd)
        if q is None:
            continue
        hostile_seen[gd["hostile"]] = hostile_seen.get(gd["hostile"], 0) + 1
        qcls[q["cls"]] = qcls.get(q["cls"], 0) + 1
        run_case(ctx, gd, q, via=rng.choice(gq.CALL_FORMS))
        if "id.line7" in kernel.tags():
            POOL.append((gd, q))
    # feedback: cases whose trace reached line 7 (rare under uniform sampling) are kept and mutated
    pool = [c for c in POOL]
    budget = ctx.share({"quick": 9000, "thorough": 100000}[ctx.tier])
    fb = {"line7_cases": 0, "line7_then_line6": 0, "line7_twice": 0}
    deep: list = []  # cases whose trace passes line 7 twice (7 -> 2 -> 7): rarer still, mutated preferentially
    for i in range(budget):
        if pool and rng.random() < 0.85:
            gd, q = rng.choice(deep) if deep and rng.random() < 0.5 else rng.choice(pool)
            gd = gg.mutate(gd, rng)
            if rng.random() < 0.3:
                q2 = gq.random_query(rng, gd)
                q = q2 or q
            if not (set(q["X"]) | set(q["Y"])) <= set(gd["nodes"]):
                continue
        else:
            gd = gg.random_admg(rng, rng.choice([4, 5, 5]), hostile=rng.choice(["onedistrict", "bichain", "bow", "none"]))
            q = gq.random_query(rng, gd)
            if q is None:
                continue
        run_case(ctx, gd, q)
        tg = kernel.tags()
        if "id.line7" in tg:
            fb["line7_cases"] += 1
            if "id.line6" in tg[tg.index("id.line7"):]:
                fb["line7_then_line6"] += 1
            # line 7 entered with a working distribution that is no longer the observational one: a second line 7 in
            # ONE recursion chain (two line-7 events in different line-4 branches do not count)
            nested = any(t == "id.line7" and "estimand" in f and not mon_id._is_observational(f["estimand"])
                         for t, f in kernel.LOG.trace)
            if nested:
                fb["line7_twice"] += 1
                if len(deep) < 200:
                    deep.append((gd, q))
                else:
                    deep[rng.randrange(len(deep))] = (gd, q)
            if len(pool) < 400:
                pool.append((gd, q))
            else:
                pool[rng.randrange(len(pool))] = (gd, q)
    ctx.extras["feedback"] = fb
    # wide graphs (10..14 nodes): the algorithm works on the whole graph; the exact models keep a handful of live
    # variables (the query's and a few random others) and make the rest constants, so every estimand is still evaluated
    wide = {"cases": 0, "estimands": 0}
    for _ in range(ctx.share({"quick": 1600, "thorough": 16000}[ctx.tier])):
        n = rng.randint(10, 14)
        if rng.random() < 0.6:
            # a small graph at the usual densities, embedded in a wide one whose other nodes are constants
            core = gg.random_admg(rng, rng.choice([3, 4, 4, 5]))
            q = gq.random_query(rng, core)
            if q is None:
                continue
            gd, pad = gg.embed_wide(core, rng, n)
            wide["cases"] += 1
            res = run_case(ctx, gd, q, via=rng.choice(("outcomes", "identify", "single", "from_parts", "str-graph", "str-graph-identify")),
                           cards={w: 1 for w in pad})
            wide["estimands"] += res is not None
            continue
        gd = gg.random_admg(rng, n, hostile=rng.choice(["none", "bow", "bichain", "isolated"]),
                            p_di=rng.choice((0.12, 0.2, 0.3)), p_bi=rng.choice((0.05, 0.1, 0.18)))
        q = gq.random_query(rng, gd)
        if q is None or len(q["X"]) + len(q["Y"]) > 4:
            continue
        live = set(q["X"]) | set(q["Y"])
        # prefer neighbours of the query's variables: they decide what the estimand must adjust for
        near = sorted({a if b in live else b for a, b in gd["di"] + gd["bi"] if (a in live) != (b in live)})
        rng.shuffle(near)
        rest = [v for v in gd["nodes"] if v not in live and v not in near]
        rng.shuffle(rest)
        for v in (near + rest)[: max(0, 6 - len(live))]:
            live.add(v)
        cards = {v: 1 for v in gd["nodes"] if v not in live}
        wide["cases"] += 1
        res = run_case(ctx, gd, q, via=rng.choice(("outcomes", "identify", "single", "from_parts", "str-graph", "str-graph-identify")), cards=cards)
        wide["estimands"] += res is not None
    ctx.extras["wide_graphs"] = wide
    # the same with 64..130 nodes (sparse padding): thresholds on node counts far above the usual sizes
    huge = 0
    for _ in range(ctx.share({"quick": 160, "thorough": 4000}[ctx.tier])):
        core = gg.random_admg(rng, rng.choice([3, 4, 4, 5]))
        q = gq.random_query(rng, core)
        if q is None:
            continue
        gd, pad = gg.embed_wide(core, rng, rng.choice([64, 65, 100, 130]), p_di=0.02, p_bi=0.01)
        huge += 1
        if huge % 2:
            # many treatments: 21..40 of the (constant) padding nodes become parents of an outcome and are intervened on
            # too, so that they stay in the graph through line 2 and the late nodes have dozens of predecessors
            from ..refgraph import RG

            y = rng.choice(q["Y"])
            rgd = RG.make(gd["nodes"], [tuple(e) for e in gd["di"]], [])
            desc = {str(v) for v in rgd.descendants_inclusive({y})}
            extra = [w for w in pad if w not in desc][: rng.randint(21, 40)]
            gd = dict(gd, di=gd["di"] + [[w, y] for w in extra if [w, y] not in gd["di"]])
            q = dict(q, X=sorted(set(q["X"]) | set(extra)))
        run_case(ctx, gd, q, via=rng.choice(("outcomes", "identify", "str-graph", "str-graph-identify")), cards={w: 1 for w in pad})
    ctx.extras["huge_graphs"] = huge
    # a planted seven-node family whose trace is line 7 -> line 2 -> line 6 with a tie in the inner topological order
    mon_id.CONFIG["max_nodes_semantic"] = 7
    for _ in range(ctx.share({"quick": 96, "thorough": 1500}[ctx.tier])):
        gd_, q_ = planted_7_2_6(rng)
        run_case(ctx, gd_, q_, via=rng.choice(("outcomes", "identify")))
        gd_, q_ = planted_7_2_7(rng)
        run_case(ctx, gd_, q_, via=rng.choice(("outcomes", "identify")))
    mon_id.CONFIG["max_nodes_semantic"] = 6
    for _ in range(ctx.share({"quick": 64, "thorough": 800}[ctx.tier])):
        # a confounder that reaches the outcome only through the treatment (z -> x -> y, z <-> y), in a graph of 10..14
        # nodes: pruning the graph to "what matters" before identification must not drop z
        z_, x_, y_ = rng.sample(["Z", "X", "Y", "V1", "V2", "V3"], 3)
        core_ = {"nodes": [z_, x_, y_], "di": [[z_, x_], [x_, y_]] + ([[z_, y_]] if rng.random() < 0.2 else []),
                 "bi": [[z_, y_]], "hostile": "planted-confounder-behind-the-treatment"}
        gdw, padw = gg.embed_wide(core_, rng, rng.randint(10, 14))
        run_case(ctx, gdw, {"X": [x_], "Y": [y_], "cls": "planted"}, via=rng.choice(("outcomes", "single", "outcomes-kw")),
                 cards={w: 1 for w in padw})
    for _ in range(ctx.share({"quick": 64, "thorough": 800}[ctx.tier])):
        gd_, q_, cards_ = planted_many_treatments(rng)
        run_case(ctx, gd_, q_, via=rng.choice(("outcomes", "identify")), cards=cards_)
    # edit histories: the same graph object is queried, edited in place and queried again
    _edit_histories(ctx, rng)
    exs = example_graphs()
    for j, gd in enumerate(exs):
        if not ctx.mine(j):
            continue
        for _ in range({"quick": 3, "thorough": 20}[ctx.tier]):
            q = gq.random_query(rng, gd)
            if q is not None:
                run_case(ctx, gd, q)
    ctx.extras["hostile_classes"] = hostile_seen
    ctx.extras["query_classes"] = qcls
    ctx.extras["example_graphs"] = len(exs)


def replay(case):
    mon_id.install(semantic=True, K=4, max_card=3)

    class _C:
        def case(self, *a, **k):
            pass

    gd = case["graph"]
    gd = {"nodes": gd["nodes"], "di": gd["di"], "bi": gd["bi"]}
    run_case(_C(), gd, {"X": case["X"], "Y": case["Y"]}, via=case.get("via", "outcomes"), cards=case.get("cards"))


def install_for_suite():
    mon_id.install(semantic=True, K=2, max_card=3)
