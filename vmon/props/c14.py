"""C14 — mixed-graph surgery meets its set-theoretic definitions (DESIGN §4 C14)."""

from __future__ import annotations

import itertools as itt

from .. import kernel, mon_graph
from ..gen import graphs as gg
from ..refgraph import RG
from ..snap import freeze_graph

PROP = "C14"
RULE = (
    "cases = (graph, operation, node subset S) triples; quick: EXHAUSTIVE over all 512 mixed graphs on 3 "
    "labelled nodes (cyclic included) x all 8 subsets x 15 operations, plus random ADMGs n=4..8 with hostile "
    "classes (isolated, bidirected-only nodes, bows, chains), two insertion orders each, plus two-world graphs over "
    "counterfactual variables (two nodes sharing one name), plus 30-step call "
    "histories on one shared graph object with an aliasing probe (the harness mutates every returned graph and "
    "re-compares the receiver; acyclic graphs are additionally edited IN PLACE between calls - add/remove an edge, add a "
    "node - so that a stale per-object cache would answer for the old graph). Arguments stay inside the documented domain (S subset of V; sources and targets "
    "disjoint). non-trivial = graph has >=1 edge and S is a non-empty proper subset (or the op takes no set); "
    "distinct by (canonical graph, op, S)."
)
ASSUMPTIONS = [
    "O3 (vmon/refgraph.py) states each operation's definition as a set comprehension; trusted base",
    "topological_sort/pre are judged for validity, not for one particular order",
]
MIN_NONTRIVIAL = {"quick": 5000, "thorough": 20000}
REQUIRED = [
    "eval:NxMixedGraph." + m
    for m in (
        "subgraph", "remove_in_edges", "remove_out_edges", "remove_nodes_from", "intervene",
        "ancestors_inclusive", "descendants_inclusive", "districts", "get_markov_pillow",
        "get_markov_blanket", "moralize", "disorient", "pre", "topological_sort",
    )
] + ["eval:graph.get_nodes_in_directed_paths"]
EXHAUSTIVE = {"quick": "all 512 mixed graphs on 3 labelled nodes x all subsets x all operations",
              "thorough": "all 512 mixed graphs on 3 labelled nodes x all subsets x all operations"}
TIMEOUT = {"quick": 600, "thorough": 3600}

SET_OPS = ("subgraph", "remove_in_edges", "remove_out_edges", "remove_nodes_from",
           "ancestors_inclusive", "descendants_inclusive", "get_markov_pillow", "get_markov_blanket")


def _vars(names):
    return {gg.node(n) for n in names}


def _result_rg(res):
    from y0.graph import NxMixedGraph

    if isinstance(res, NxMixedGraph):
        return ("G", RG.from_nx(res))
    if hasattr(res, "edges") and hasattr(res, "nodes"):
        return ("nx", frozenset(res.nodes()), frozenset(frozenset(e) for e in res.edges()))
    if isinstance(res, (set, frozenset)):
        return ("S", frozenset(frozenset(x) if isinstance(x, (set, frozenset)) else x for x in res))
    return ("V", repr(res))


def _probe_alias(g, res, op):
    """Mutate the returned object; the receiver must not notice."""
    from y0.dsl import Variable
    from y0.graph import NxMixedGraph

    fz = freeze_graph(g)
    if isinstance(res, NxMixedGraph):
        res.directed.add_edge(Variable("__probe1"), Variable("__probe2"), w=1)
        res.undirected.add_edge(Variable("__probe1"), Variable("__probe3"))
        for n in list(res.directed.nodes()):
            res.directed.nodes[n]["probe"] = 1
        for n in list(res.undirected.nodes()):
            res.undirected.nodes[n]["probe"] = 1
        for e in list(res.directed.edges()):
            res.directed.edges[e]["probe"] = 1
        for e in list(res.undirected.edges()):
            res.undirected.edges[e]["probe"] = 1
    elif isinstance(res, set):
        res.add(Variable("__probe"))
    elif isinstance(res, list):
        res.append(Variable("__probe"))
    if freeze_graph(g) != fz:
        kernel.violation(PROP, "aliasing", f"mutating the result of {op} changed the receiver")


def apply_ops(ctx, gd, S_names, acyclic, alias=False, ops=None):
    """Call every operation on the real graph (monitors decide); returns {op: comparable result}."""
    from y0.dsl import Variable
    from y0.graph import get_nodes_in_directed_paths

    g = gg.to_nx(gd)
    S = _vars(S_names)
    gkey = gg.key(gd)
    skey = ",".join(sorted(S_names))
    n_edges = len(gd["di"]) + len(gd["bi"])
    proper = 0 < len(S_names) < len(gd["nodes"])
    out = {}

    def run(op, f, uses_set=True):
        if ops is not None and op not in ops:
            return
        kernel.LOG.reset_case({"graph": gd, "op": op, "S": sorted(S_names)})
        try:
            res = f()
        except Exception as e:  # noqa: BLE001
            kernel.violation(PROP, op, f"{op} raised {type(e).__name__}: {e} (defined input)")
            res = None
        out[op] = _result_rg(res)
        if alias and res is not None:
            _probe_alias(g, res, op)
        ctx.case(f"{gkey}|{op}|{skey if uses_set else ''}", n_edges >= 1 and (proper or not uses_set),
                 sample={"graph": gd, "op": op, "S": sorted(S_names)})

    # the vertex argument in every form the signatures admit: set, frozenset, list, tuple, a one-shot generator, and a
    # bare Variable for a singleton (chosen by a hash-seed independent checksum, so every form meets every operation)
    forms = [set, frozenset, lambda x: sorted(x, key=str), lambda x: tuple(sorted(x, key=str, reverse=True)),
             lambda x: (v for v in sorted(x, key=str))]
    for k, op in enumerate(SET_OPS):
        which = (sum(map(ord, gkey + skey)) + k) % (len(forms) + 1)
        if which == len(forms):
            arg_fn = (lambda x: next(iter(x))) if len(S) == 1 else set
        else:
            arg_fn = forms[which]
        if op == "get_markov_pillow" and which >= 4:
            arg_fn = set  # documented as a Collection: a generator or a bare Variable is outside its signature
        run(op, lambda op=op, arg_fn=arg_fn: getattr(g, op)(arg_fn(S)))
    run("districts", g.districts, uses_set=False)
    if ops is None or "districts" in ops:
        # the single-node view of the same partition, and the graph's own copy (equal, and independent of the receiver)
        ref_ = RG.from_nx(g)
        for vname in sorted(S_names)[:2]:
            kernel.LOG.reset_case({"graph": gd, "op": "get_district", "S": [vname]})
            try:
                got_ = frozenset(g.get_district(gg.node(vname)))
                want_ = next(frozenset(d_) for d_ in ref_.districts() if gg.node(vname) in d_)
                kernel.count("eval:NxMixedGraph.get_district")
                if got_ != want_:
                    kernel.violation(PROP, "get_district", f"get_district({vname}) = {sorted(map(str, got_))}, the district of "
                                     f"{vname} is {sorted(map(str, want_))}; graph {gd}")
            except Exception as e:  # noqa: BLE001
                kernel.violation(PROP, "get_district", f"get_district({vname}) raised {type(e).__name__}: {e}; graph {gd}")
        if sum(map(ord, gkey)) % 7 == 0:
            kernel.LOG.reset_case({"graph": gd, "op": "copy", "S": []})
            try:
                c_ = g.copy()
                kernel.count("eval:NxMixedGraph.copy")
                if RG.from_nx(c_) != ref_ or not (c_ == g):
                    kernel.violation(PROP, "copy", f"copy() differs from the receiver; graph {gd}")
                _probe_alias(g, c_, "copy")
            except Exception as e:  # noqa: BLE001
                kernel.violation(PROP, "copy", f"copy() raised {type(e).__name__}: {e}; graph {gd}")
    run("moralize", g.moralize, uses_set=False)
    run("disorient", g.disorient, uses_set=False)
    if S:
        iv = {(+v if i % 2 else -v) for i, v in enumerate(sorted(S, key=str))}
        run("intervene", lambda: g.intervene(iv))
    if acyclic:
        run("topological_sort", g.topological_sort, uses_set=False)
        run("pre", lambda: g.pre(set(S)))
        order = RG.from_nx(g).topological_order()
        run("pre(order)", lambda: g.pre(set(S), order))
    # directed paths: S -> complement subsets
    rest = sorted(n for n in gd["nodes"] if n not in S_names)
    if S and rest:
        # every non-empty target set inside the complement for small graphs (a node of a dead-end cycle must be
        # *outside* the targets to tell walks from paths), the single nodes and one larger set otherwise
        if len(rest) <= 3:
            targets = [list(t) for t in gg.subsets(rest) if t]
        else:
            targets = [[r] for r in rest[:3]] + [rest[: max(1, len(rest) // 2 + 1)]]
        for tnames in targets:
            T = _vars(tnames)
            run("get_nodes_in_directed_paths", lambda T=T: get_nodes_in_directed_paths(g, set(S), T))
    return out


def _history(ctx, gd, rng, steps, edits=True):
    """One shared graph object, many operations; every post-condition re-checks the receiver,
    the harness mutates results (aliasing probe)."""
    from y0.graph import get_nodes_in_directed_paths

    g = gg.to_nx(gd)
    fz0 = freeze_graph(g)
    nodes = gd["nodes"]
    # a few vertex sets are asked again and again over the history (a memo keyed by the arguments answers the second
    # time - after an edit it must answer for the edited graph)
    favourites = [rng.sample(nodes, rng.randint(1, len(nodes))) for _ in range(3)]
    for _ in range(steps):
        op = rng.choice(SET_OPS + ("districts", "moralize", "disorient", "topological_sort", "paths") +
                        ("ancestors_inclusive", "descendants_inclusive", "get_markov_pillow"))
        if rng.random() < 0.6:
            S = _vars([n for n in rng.choice(favourites) if n in nodes])
        else:
            S = _vars(rng.sample(nodes, rng.randint(0, len(nodes))))
        kernel.LOG.reset_case({"graph": gd, "op": "history:" + op, "S": sorted(map(str, S))})
        try:
            if op in SET_OPS:
                res = getattr(g, op)(S)
            elif op == "paths":
                T = set(_vars(nodes)) - S
                res = get_nodes_in_directed_paths(g, S, T) if S and T else None
            else:
                res = getattr(g, op)()
        except Exception as e:  # noqa: BLE001
            kernel.violation(PROP, op, f"history: {op} raised {type(e).__name__}: {e}")
            continue
        if res is not None:
            _probe_alias(g, res, op)
        ctx.case(f"H|{gg.key(gd)}|{op}|{sorted(map(str, S))}", bool(gd["di"] or gd["bi"]) and bool(S))
        if edits and rng.random() < 0.3 and gg._acyclic(gd["nodes"], gd["di"]):
            # the caller edits its own graph object in place: later results must reflect the edited graph
            if freeze_graph(g) != fz0:
                kernel.violation(PROP, "receiver-unchanged", "graph changed over a call history")
            gd = gg.edit_inplace(g, gd, rng)
            nodes = gd["nodes"]
            fz0 = freeze_graph(g)
            # straight after the edit: the order-based views and the closures of the favourites (a cache that the edit
            # did not invalidate answers here first)
            for op2 in ("topological_sort", "districts", "ancestors_inclusive", "descendants_inclusive"):
                S2 = _vars([n for n in rng.choice(favourites) if n in nodes]) or _vars(nodes[:1])
                kernel.LOG.reset_case({"graph": gd, "op": "history:" + op2, "S": sorted(map(str, S2))})
                try:
                    r2 = getattr(g, op2)() if op2 in ("topological_sort", "districts") else getattr(g, op2)(S2)
                    if op2 == "topological_sort":
                        r2 = list(r2)
                except Exception as e:  # noqa: BLE001
                    kernel.violation(PROP, op2, f"history: {op2} raised {type(e).__name__}: {e} after an in-place edit")
    if freeze_graph(g) != fz0:
        kernel.violation(PROP, "receiver-unchanged", "graph changed over a call history")


def run_shard(ctx):
    gg.ALLOW_ODD = True  # node names that are not Python identifiers are node names like any other
    mon_graph.install()
    rng = ctx.rng
    # 1. exhaustive 3-node scope
    for i, gd in enumerate(gg.all_mixed_graphs(3)):
        if not ctx.mine(i):
            continue
        acyclic = gg._acyclic(gd["nodes"], gd["di"])
        for S in gg.subsets(gd["nodes"]):
            apply_ops(ctx, gd, list(S), acyclic)
    ctx.extras["exhaustive_graphs_3"] = sum(1 for i in range(512) if ctx.mine(i))
    # 2. random ADMGs with hostile classes, two insertion orders
    n_random = ctx.share({"quick": 1200, "thorough": 40000}[ctx.tier])
    hostile_seen = {}
    for _ in range(n_random):
        n = rng.randint(4, 8)
        gd = gg.random_admg(rng, n)
        hostile_seen[gd["hostile"]] = hostile_seen.get(gd["hostile"], 0) + 1
        S = rng.sample(gd["nodes"], rng.randint(0, n))
        r1 = apply_ops(ctx, gd, S, True, alias=True)
        gd2 = gg.permuted(gd, rng)
        r2 = apply_ops(ctx, gd2, S, True)
        for op in r1:
            if op in ("topological_sort", "pre", "pre(order)"):
                continue
            if r1[op] != r2.get(op):
                kernel.LOG.reset_case({"graph": gd, "graph2": gd2, "op": op, "S": sorted(S)})
                kernel.violation(PROP, "insertion-order", f"{op} differs between two insertion orders of one graph")
    ctx.extras["hostile_classes"] = hostile_seen
    # 2a'. cyclic graphs with self-loops (x -> x): the edge-set operations are defined "acyclic or not"
    loop_ops = {"subgraph", "remove_in_edges", "remove_out_edges", "remove_nodes_from", "ancestors_inclusive",
                "descendants_inclusive", "districts", "moralize", "disorient"}
    for _ in range(ctx.share({"quick": 300, "thorough": 6000}[ctx.tier])):
        gd = gg.random_admg(rng, rng.randint(3, 6))
        loops = rng.sample(gd["nodes"], rng.randint(1, 2))
        gd = dict(gd, di=gd["di"] + [[x, x] for x in loops] + ([[gd["di"][0][1], gd["di"][0][0]]] if gd["di"] and rng.random() < 0.3 else []),
                  hostile="self-loops")
        for S in ([], rng.sample(gd["nodes"], rng.randint(1, len(gd["nodes"]) - 1)), [loops[0]]):
            apply_ops(ctx, gd, S, False, ops=loop_ops)
    # 2b. graphs over counterfactual variables: two nodes share one ``.name`` (A and A@-x), as in the parallel-worlds
    # and counterfactual graphs ID* builds - the definitions speak about nodes, never about their names
    twin_ops = set(SET_OPS) | {"districts", "moralize", "disorient", "topological_sort", "pre", "pre(order)",
                               "get_nodes_in_directed_paths"}
    for _ in range(ctx.share({"quick": 500, "thorough": 12000}[ctx.tier])):
        gd = gg.twin_worlds(gg.random_admg(rng, rng.randint(2, 4)), rng)
        S = rng.sample(gd["nodes"], rng.randint(1, min(3, len(gd["nodes"]) - 1)))
        apply_ops(ctx, gd, S, True, alias=True, ops=twin_ops)
    # 2c. large dense graphs, small vertex sets (size-dependent code paths in the edge filters)
    big_ops = set(SET_OPS) | {"districts", "pre", "get_nodes_in_directed_paths"}
    nbig = 0
    for _ in range(ctx.share({"quick": 100, "thorough": 2500}[ctx.tier])):
        gd = gg.random_admg(rng, rng.randint(10, 15), hostile="none", p_di=rng.choice((0.5, 0.7, 0.9)),
                            p_bi=rng.choice((0.1, 0.3, 0.6)))
        nbig += len(gd["di"]) > 32
        for _k in range(3):
            apply_ops(ctx, gd, rng.sample(gd["nodes"], rng.randint(1, 4)), True, ops=big_ops)
    ctx.extras["graphs_with_more_than_32_directed_edges"] = nbig
    # 2d. very large sparse graphs (64..160 nodes), small and large selections: thresholds on node or edge counts
    huge_ops = set(SET_OPS) | {"districts", "get_nodes_in_directed_paths"}
    nhuge = 0
    for _ in range(ctx.share({"quick": 48, "thorough": 1000}[ctx.tier])):
        n = rng.choice([64, 65, 80, 100, 128, 129, 160])
        nm = [f"N{i:03d}" for i in range(n)]
        order = nm[:]
        rng.shuffle(order)
        k_di, k_bi = rng.randint(n, 3 * n), rng.randint(n // 4, n)
        di, bi = set(), set()
        while len(di) < k_di:
            i, j = sorted(rng.sample(range(n), 2))
            di.add((order[i], order[j]))
        while len(bi) < k_bi:
            a, b = rng.sample(nm, 2)
            if (b, a) not in bi:
                bi.add((a, b))
        gd = {"nodes": nm if rng.random() < 0.5 else order, "di": [list(e) for e in sorted(di)],
              "bi": [list(e) for e in sorted(bi)], "hostile": "huge-sparse"}
        nhuge += 1
        for size in (rng.randint(1, 4), rng.randint(5, n // 4), rng.randint(n // 2, n - 1)):
            S = rng.sample(nm, size)
            if rng.random() < 0.5:
                # a selection that is connected (a node with its neighbours), so that edges lie inside it
                seed_ = rng.choice(nm)
                nb = [v for u, v in di if u == seed_] + [u for u, v in di if v == seed_] + \
                     [v for u, v in bi if u == seed_] + [u for u, v in bi if v == seed_]
                S = list(dict.fromkeys([seed_] + nb + S))[: max(2, size)]
            apply_ops(ctx, gd, S, True, ops=huge_ops)
    ctx.extras["huge_sparse_graphs"] = nhuge
    # 2e. scale: a ladder with 2^48 directed paths and a chain of 1500 nodes, every operation under a budget of Python
    # function activations (a walk path by path, or a recursion over the path length, does not come back)
    from .c02 import scale_graph

    for j, (name, budget) in enumerate((("ladder48", 40_000_000), ("chain1500", 400_000_000))):
        if not ctx.mine(5 * j + 2):
            continue
        gd_, q_ = scale_graph(name)
        gd_ = dict(gd_, hostile="scale:" + name)
        ops_ = set(SET_OPS) | {"districts", "topological_sort", "pre"} | ({"get_nodes_in_directed_paths"} if name.startswith("ladder") else set())
        for S_ in ([q_["X"][0]], [q_["Y"][0]], [q_["X"][0], gd_["nodes"][len(gd_["nodes"]) // 2]]):
            try:
                with kernel.step_budget(budget) as sb:
                    apply_ops(ctx, gd_, S_, True, ops=ops_)
                key_ = f"C14:scale-max-function-activations:{name}"
                kernel.LOG.counters[key_] = max(kernel.LOG.counters[key_], sb.used)
            except kernel.BudgetExceeded:
                kernel.violation(PROP, "bounded-progress", f"the operations on the {name} graph with S={S_} used more than "
                                 f"{budget} function activations", case={"scale": name, "S": S_})
        kernel.count("C14:scale-graphs")
    # 3. histories
    for _ in range(ctx.share({"quick": 240, "thorough": 3000}[ctx.tier])):
        gd = gg.random_admg(rng, rng.randint(3, 7))
        _history(ctx, gd, rng, 30)


def replay(case):
    mon_graph.install()

    class _C:
        def case(self, *a, **k):
            pass

    gd = case.get("graph")
    acyclic = gg._acyclic(gd["nodes"], gd["di"])
    apply_ops(_C(), gd, case.get("S", []), acyclic, alias=True)
    if "graph2" in case:
        apply_ops(_C(), case["graph2"], case.get("S", []), acyclic)


def install_for_suite():
    mon_graph.install()
