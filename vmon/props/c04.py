"""C04 — d-separation verdicts equal true m-separation (DESIGN §4 C04)."""

from __future__ import annotations

import itertools as itt

from .. import kernel, mon_dsep
from ..gen import events as gev
from ..gen import graphs as gg
from ..gen import queries as gq

PROP = "C04"
RULE = (
    "cases = (ADMG, ordered pair a,b, conditioning set C); EXHAUSTIVE over all labelled ADMGs on <=3 nodes "
    "(quick: plus a seeded 6% sample of the 34 752 ADMGs on 4 nodes; thorough: all of them) x all ordered pairs x "
    "all C; random ADMGs n=5..8 biased to bidirected chains whose inner nodes (or their descendants) are "
    "conditioned, each rebuilt with a second insertion order; plus the are_d_separated calls harvested while "
    "IDC runs on random queries (realistic operands); edit histories (query, edit the SAME graph object in place, query "
    "again); parallel-worlds graphs of random events, whose nodes share base names (Y and Y @ -X), with same-base nodes "
    "among the conditions. Verdict compared with Bayes-ball m-separation on the "
    "explicit latent DAG; symmetry by calling the real function with swapped arguments. non-trivial = C "
    "non-empty, graph has a bidirected edge, a and b connected in the skeleton; distinct by (graph, {a,b}, C)."
)
ASSUMPTIONS = [
    "O3 Bayes-ball on the latent DAG is the definition of m-separation (cross-checked against exact SCM "
    "independences in C04's O1 cross-check when enabled)",
]
MIN_NONTRIVIAL = {"quick": 3000, "thorough": 100000}
REQUIRED = ["eval:are_d_separated"]
EXHAUSTIVE = {"quick": "all ADMGs on <=3 labelled nodes x all ordered pairs x all conditioning sets",
              "thorough": "all 34 752 ADMGs on 4 labelled nodes (and all smaller) x all ordered pairs x all conditioning sets"}
TIMEOUT = {"quick": 600, "thorough": 7200}


def _connected(gd, a, b):
    adj = {n: set() for n in gd["nodes"]}
    for u, v in gd["di"] + gd["bi"]:
        adj[u].add(v)
        adj[v].add(u)
    seen = {a}
    st = [a]
    while st:
        x = st.pop()
        for y in adj[x]:
            if y not in seen:
                seen.add(y)
                st.append(y)
    return b in seen


def query(ctx, g, gd, a, b, C, gkey=None, raw=False):
    """``raw``: g came through the public dataclass constructor and its two networkx members do not hold the same
    nodes - a form outside what the factory methods produce: its verdicts are judged, an exception from it is counted."""
    from y0.algorithm.conditional_independencies import are_d_separated
    from y0.dsl import Variable

    kernel.LOG.reset_case({"graph": gd, "a": a, "b": b, "C": sorted(C)})
    # the conditions in every form the signature (Iterable | None) admits
    Cv = sorted((Variable(c) for c in C), key=str)
    k = sum(map(ord, a + b + "".join(sorted(C)))) % 7
    cond = (set(Cv) if k == 0 else frozenset(Cv) if k == 1 else list(Cv) if k == 2 else tuple(reversed(Cv)) if k == 3 else
            (v for v in Cv) if k == 4 else iter(Cv) if k == 5 else (None if not Cv else set(Cv)))
    kernel.count("C04:conditions-form:" + ("set", "frozenset", "list", "tuple", "generator", "iterator", "none-or-set")[k])
    if sum(map(ord, a + b)) % 6 == 1:
        # the caller has used the graph before and edited the ancestor / descendant sets it was handed
        with kernel.quiet():
            for m_ in sorted(C)[:2] + [a, b]:
                d_ = g.descendants_inclusive(Variable(m_))
                d_.discard(Variable(m_))
                a_ = g.ancestors_inclusive({Variable(m_)})
                a_.clear()
        kernel.count("C04:queries-after-the-caller-edited-returned-sets")
    try:
        r = are_d_separated(g, Variable(a), Variable(b), conditions=cond)
    except Exception as e:  # noqa: BLE001
        if raw:
            kernel.count("C04:raw-dataclass-graph:raised-not-judged")
        else:
            kernel.violation(PROP, "total", f"are_d_separated raised {type(e).__name__}: {e} on a valid query")
        r = None
    if raw:
        kernel.count("C04:raw-dataclass-graph:queries")
    nt = bool(C) and bool(gd["bi"]) and _connected(gd, a, b)
    lo, hi = sorted((a, b))
    ctx.case(f"{gkey or gg.key(gd)}|{lo},{hi}|{','.join(sorted(C))}", nt,
             sample={"graph": gd, "a": a, "b": b, "C": sorted(C), "separated": None if r is None else bool(r)})
    return None if r is None else bool(r)


def all_queries(ctx, gd):
    g = gg.to_nx(gd)
    gkey = gg.key(gd)
    nodes = gd["nodes"]
    for a, b in itt.permutations(nodes, 2):
        rest = [n for n in nodes if n not in (a, b)]
        for C in gg.subsets(rest):
            query(ctx, g, gd, a, b, list(C), gkey)


def oracle_selfcheck(ctx, rng):
    import itertools as it
    from fractions import Fraction

    from ..scm import ModelTooLarge, model_for_graph

    n_sep = n_con = n_nowit = 0
    for _ in range(ctx.share({"quick": 160, "thorough": 4000}[ctx.tier])):
        gd = gg.random_admg(rng, rng.randint(3, 5), hostile=rng.choice(["bichain", "bow", "none", "onedistrict"]))
        ref = gg.to_rg(gd)
        names = sorted(gd["nodes"])
        a, b = rng.sample(names, 2)
        rest = [x for x in names if x not in (a, b)]
        C = sorted(rng.sample(rest, rng.randint(0, len(rest))))
        from y0.dsl import Variable

        sep = ref.m_separated(Variable(a), Variable(b), {Variable(c) for c in C})
        dependent_somewhere = False
        for k in range(3):
            try:
                m = model_for_graph(rng, gd, max_card=3, clique_latents=bool(k % 2))
            except ModelTooLarge:
                continue
            indep = True
            for vals in it.product(*[m.values(x) for x in [a, b] + C]):
                env = dict(zip([a, b] + C, vals))
                pc = m.p({c: env[c] for c in C}) if C else Fraction(1)
                pabc = m.p(env)
                pac = m.p({k2: env[k2] for k2 in [a] + C})
                pbc = m.p({k2: env[k2] for k2 in [b] + C})
                if pabc * pc != pac * pbc:
                    indep = False
                    break
            if sep and not indep:
                kernel.monitor_error("c04.oracle-selfcheck", RuntimeError(
                    f"O3 says {a} and {b} are m-separated given {C} in {gd} but they are dependent in a compatible model"))
                return
            dependent_somewhere |= not indep
        if sep:
            n_sep += 1
        else:
            n_con += 1
            n_nowit += not dependent_somewhere
    ctx.extras["oracle_selfcheck"] = {"separations_confirmed_as_exact_independence": n_sep, "connections": n_con,
                                      "connections_without_dependence_witness_in_3_models": n_nowit}


def _post_enumerator(snap, res, graph, *a, **k):
    """'Every reported separation is a conditional independence': the judgements the enumerator publishes."""
    from ..refgraph import RG

    ref = RG.from_nx(graph)
    if not ref.is_acyclic():
        return
    for j in res:
        if not j.separated or j.left == j.right or not ({j.left, j.right} | set(j.conditions)) <= set(ref.V):
            continue
        kernel.count("C04:published-separations-checked")
        if not ref.m_separated(j.left, j.right, set(j.conditions)):
            kernel.violation(PROP, "published-separation", f"get_conditional_independencies reports {j.left} _||_ {j.right} | "
                             f"{sorted(map(str, j.conditions))} but they are m-connected in {mon_dsep._gd(ref)}",
                             case={"graph": mon_dsep._gd(ref), "enumerate": True,
                                   "k": k.get("max_conditions")})


def install_enumerator():
    import y0.algorithm.conditional_independencies as ci

    kernel.install_function(ci, "get_conditional_independencies", label="get_conditional_independencies",
                            post=_post_enumerator)


def enumerate_case(ctx, gd, k):
    from y0.algorithm.conditional_independencies import get_conditional_independencies

    kernel.LOG.reset_case({"graph": gd, "enumerate": True, "k": k})
    try:
        get_conditional_independencies(gg.to_nx(gd), max_conditions=k)
    except Exception:  # noqa: BLE001  -- the enumerator's own contract is C15's
        kernel.count("C04:enumerator-raised")
    ctx.case(f"enum|{gg.key(gd)}|{k}", False)


def cf_graph_for(gd, ev):
    from y0.algorithm.identify.cg import extract_interventions, make_parallel_worlds_graph

    g = gg.to_nx(gd)
    return make_parallel_worlds_graph(g, extract_interventions(gev.to_event(ev)))


def cf_queries(ctx, gd, ev, rng, fixed=None):
    from y0.algorithm.conditional_independencies import are_d_separated

    try:
        with kernel.quiet():
            pw = cf_graph_for(gd, ev)
    except Exception:  # noqa: BLE001
        kernel.count("C04:parallel-worlds-graph-failed")
        return
    nodes = sorted(pw.nodes(), key=str)
    if len(nodes) < 2:
        return
    todo = [fixed] if fixed else []
    if not fixed:
        for _ in range(6):
            a, b = rng.sample(nodes, 2)
            rest = [x for x in nodes if x not in (a, b)]
            same = [x for x in rest if x.name in (a.name, b.name)]
            C = set(rng.sample(rest, rng.randint(0, min(3, len(rest)))))
            if same and rng.random() < 0.6:
                C.add(rng.choice(same))
            todo.append((str(a), str(b), sorted(map(str, C))))
    byname = {str(n): n for n in nodes}
    for a, b, C in todo:
        kernel.LOG.reset_case({"graph": gd, "event": ev, "a": a, "b": b, "C": C, "cf": True})
        try:
            r = are_d_separated(pw, byname[a], byname[b], conditions={byname[c] for c in C})
        except Exception as e:  # noqa: BLE001
            kernel.violation(PROP, "total", f"are_d_separated raised {type(e).__name__}: {e} on a counterfactual graph",
                             case=kernel.LOG.case)
            continue
        ctx.case(f"cf|{gg.key(gd)}|{gev.key(ev)}|{a}|{b}|{C}", bool(C), sample={"graph": gd, "event": gev.key(ev), "a": a, "b": b,
                                                                                 "C": C, "separated": bool(r)})


def run_shard(ctx):
    gg.ALLOW_ODD = True  # node names that are not Python identifiers are node names like any other
    mon_dsep.install()
    install_enumerator()
    rng = ctx.rng
    idx = 0
    for n in (2, 3):
        for gd in gg.all_admgs(n):
            if ctx.mine(idx):
                all_queries(ctx, gd)
            idx += 1
    n4 = 0
    for gd in gg.all_admgs(4):
        idx += 1
        if not ctx.mine(idx):
            continue
        if ctx.tier == "quick" and rng.random() > 0.06:
            continue
        n4 += 1
        all_queries(ctx, gd)
    ctx.extras["admg4_graphs"] = n4
    # random larger graphs, biased to conditioned bidirected colliders
    for _ in range(ctx.share({"quick": 1500, "thorough": 60000}[ctx.tier])):
        n = rng.randint(5, 8)
        gd = gg.random_admg(rng, n, hostile=rng.choice(["bichain", "bichain", "bow", "onedistrict", "isolated", "none", "names_unsorted", "deepcollider"]))
        g = gg.to_nx(gd)
        gd2 = gg.permuted(gd, rng)
        g2 = gg.to_nx(gd2)
        gkey = gg.key(gd)
        if "hint" in gd:
            h = gd["hint"]
            query(ctx, g, gd, h["a"], h["b"], h["C"], gkey)
        for _q in range(6):
            a, b = rng.sample(gd["nodes"], 2)
            rest = [x for x in gd["nodes"] if x not in (a, b)]
            # prefer endpoints/inner nodes of bidirected edges and their descendants
            bi_nodes = [x for x in rest if any(x in e for e in gd["bi"])]
            C = set(rng.sample(rest, rng.randint(0, len(rest))))
            if bi_nodes and rng.random() < 0.7:
                C |= set(rng.sample(bi_nodes, rng.randint(1, len(bi_nodes))))
            v1 = query(ctx, g, gd, a, b, sorted(C), gkey)
            v2 = query(ctx, g2, gd2, a, b, sorted(C), gkey)
            if v1 != v2:
                kernel.LOG.reset_case({"graph": gd, "graph2": gd2, "a": a, "b": b, "C": sorted(C)})
                kernel.violation(PROP, "insertion-order", f"verdict {v1} vs {v2} for two insertion orders of one graph")
            if _q % 3 == 0:
                # the same diagram wrapped around two existing networkx graphs (public dataclass constructor): the
                # bidirected member only knows the endpoints of bidirected edges
                v3 = query(ctx, gq.raw_graph(g), gd, a, b, sorted(C), gkey + "|raw", raw=True)
                if v3 is not None and v1 is not None and v3 != v1:
                    kernel.LOG.reset_case({"graph": gd, "a": a, "b": b, "C": sorted(C), "raw": True})
                    kernel.violation(PROP, "construction-path", f"verdict {v1} on the graph built by the factory methods, "
                                     f"{v3} on the same diagram built with NxMixedGraph(directed=, undirected=)")
    # large dense graphs (more edges than any <=8-node DAG can have), small query sets: size-dependent code paths
    nbig = 0
    for _ in range(ctx.share({"quick": 160, "thorough": 4000}[ctx.tier])):
        n = rng.randint(10, 15)
        gd = gg.random_admg(rng, n, hostile="none", p_di=rng.choice((0.5, 0.7, 0.9)), p_bi=rng.choice((0.05, 0.15, 0.3)))
        g = gg.to_nx(gd)
        gkey = gg.key(gd)
        nbig += len(gd["di"]) > 32
        order = gg.to_rg(gd).topological_order()
        early = [str(v) for v in order[: max(4, n // 2)]]
        for _q in range(10):
            pool = early if rng.random() < 0.7 else gd["nodes"]  # few ancestors: the ancestral subgraph stays small
            a, b = rng.sample(pool, 2)
            rest = [x for x in pool if x not in (a, b)]
            query(ctx, g, gd, a, b, sorted(rng.sample(rest, rng.randint(0, min(2, len(rest))))), gkey)
    ctx.extras["graphs_with_more_than_32_directed_edges"] = nbig
    # long sparse graphs: the only connection between the two ends has 11 or more edges
    from .c20 import long_graph

    for _ in range(ctx.share({"quick": 80, "thorough": 2000}[ctx.tier])):
        gd = long_graph(rng)
        g = gg.to_nx(gd)
        gkey = gg.key(gd)
        nodes = gd["nodes"]
        for a, b in [(nodes[0], nodes[-1])] + [tuple(rng.sample(nodes, 2)) for _q in range(3)]:
            rest = [x for x in nodes if x not in (a, b)]
            for C in ([], rng.sample(rest, 1), rng.sample(rest, min(len(rest), rng.randint(1, 3)))):
                query(ctx, g, gd, a, b, sorted(C), gkey)
    # very large sparse graphs (64..160 nodes)
    for _ in range(ctx.share({"quick": 80, "thorough": 1200}[ctx.tier])):
        gd = gg.huge_sparse(rng, n=rng.choice([40, 64, 65, 80, 100, 128]), density=(0.6, 1.5))
        g = gg.to_nx(gd)
        gkey = gg.key(gd)[:200] + f"|huge{len(gd['di'])}"
        for _q in range(10):
            if rng.random() < 0.5 and gd["di"]:
                a, b = rng.choice(gd["di"] + gd["bi"])  # adjacent: never separable
            else:
                a, b = rng.sample(gd["nodes"], 2)
            rest = [x for x in gd["nodes"] if x not in (a, b)]
            # small conditioning sets and very large ones (more than 32 named nodes in one query)
            k = rng.randint(0, 4) if _q % 2 else rng.randint(30, min(len(rest), 70))
            query(ctx, g, gd, a, b, sorted(rng.sample(rest, k)), gkey)
    # scale: a ladder with 2^48 directed paths and a chain of 1200 nodes, each query under a function-activation budget
    from .c02 import scale_graph

    for j, (name, budget) in enumerate((("ladder48", 60_000_000), ("chain1200", 600_000_000))):
        if not ctx.mine(5 * j + 3):
            continue
        gd_, q_ = scale_graph(name)
        gd_ = dict(gd_, hostile="scale:" + name)
        g_ = gg.to_nx(gd_, mode=3)
        x_, y_, mid_ = q_["X"][0], q_["Y"][0], gd_["nodes"][len(gd_["nodes"]) // 2]
        for a_, b_, C_ in ((x_, y_, []), (x_, y_, [mid_]), (y_, x_, [gd_["nodes"][3]]), (mid_, y_, [x_])):
            if len({a_, b_, *C_}) < 2 + len(C_):
                continue
            try:
                with kernel.step_budget(budget) as sb:
                    query(ctx, g_, gd_, a_, b_, C_, "scale:" + name)
                key_ = f"C04:scale-max-function-activations:{name}"
                kernel.LOG.counters[key_] = max(kernel.LOG.counters[key_], sb.used)
            except kernel.BudgetExceeded:
                kernel.violation(PROP, "bounded-progress", f"are_d_separated({a_}, {b_} | {C_}) on the {name} graph used more "
                                 f"than {budget} function activations", case={"scale": name, "a": a_, "b": b_, "C": C_})
    # the separations the enumerator publishes (with and without a size limit) are separations
    for _ in range(ctx.share({"quick": 600, "thorough": 12000}[ctx.tier])):
        gd = gg.random_admg(rng, rng.randint(4, 6))
        enumerate_case(ctx, gd, rng.choice([None, 0, 0, 1, 2]))
    # the oracle itself is cross-checked against exact models: a separation O3 reports must be an exact conditional
    # independence in every compatible model, a connection should show as a dependence in at least one of K models
    oracle_selfcheck(ctx, rng)
    # edit histories: query a graph object, edit it in place, query the SAME object again
    for _ in range(ctx.share({"quick": 300, "thorough": 6000}[ctx.tier])):
        gd = gg.random_admg(rng, rng.randint(3, 6))
        g = gg.to_nx(gd)
        for _s in range(6):
            for _q in range(3):
                a, b = rng.sample(gd["nodes"], 2)
                rest = [x for x in gd["nodes"] if x not in (a, b)]
                query(ctx, g, gd, a, b, sorted(rng.sample(rest, rng.randint(0, len(rest)))), gg.key(gd) + "|hist")
            gd = gg.edit_inplace(g, gd, rng)
    # counterfactual-graph inputs (nodes that share a base name: Y and Y @ -X), as IDC* hands them over
    for _ in range(ctx.share({"quick": 300, "thorough": 6000}[ctx.tier])):
        gd = gg.random_admg(rng, rng.randint(2, 4))
        ev, cls = gev.random_event(rng, gd)
        if not ev or cls == "contradictory_pair":
            continue
        cf_queries(ctx, gd, ev, rng)
    # algorithm-driven slice: the separation queries IDC issues
    from y0.algorithm.identify import identify_outcomes
    from y0.dsl import Variable

    n_alg = 0
    before = kernel.LOG.counters.get("eval:are_d_separated", 0)
    for _ in range(ctx.share({"quick": 400, "thorough": 8000}[ctx.tier])):
        n = rng.randint(3, 7)
        gd = gg.random_admg(rng, n)
        g = gg.to_nx(gd)
        nodes = gd["nodes"][:]
        rng.shuffle(nodes)
        ny, nz = rng.randint(1, 2), rng.randint(1, 2)
        if n < ny + nz:
            continue
        Y, Z = nodes[:ny], nodes[ny:ny + nz]
        X = nodes[ny + nz:ny + nz + rng.randint(0, 2)]
        kernel.LOG.reset_case({"graph": gd, "idc": {"X": X, "Y": Y, "Z": Z}})
        try:
            identify_outcomes(g, {Variable(x) for x in X}, {Variable(y) for y in Y}, {Variable(z) for z in Z})
        except Exception:  # noqa: BLE001  (IDC's own failures are C03's business)
            kernel.count("C04:idc-driver-exception")
        n_alg += 1
    ctx.extras["idc_driver_queries"] = n_alg
    ctx.extras["dsep_calls_from_idc"] = kernel.LOG.counters.get("eval:are_d_separated", 0) - before


def replay(case):
    mon_dsep.install()

    class _C:
        def case(self, *a, **k):
            pass

    gd = case["graph"]
    gd = {"nodes": gd["nodes"], "di": gd["di"], "bi": gd["bi"]}
    if case.get("enumerate"):
        install_enumerator()
        enumerate_case(_C(), gd, case.get("k"))
        return
    if case.get("cf"):
        import random

        cf_queries(_C(), gd, case["event"], random.Random(0), fixed=(case["a"], case["b"], case["C"]))
        return
    v1 = query(_C(), gg.to_nx(gd), gd, case["a"], case["b"], case["C"])
    if case.get("raw"):
        v3 = query(_C(), gq.raw_graph(gg.to_nx(gd)), gd, case["a"], case["b"], case["C"], raw=True)
        if v3 is not None and v1 is not None and v3 != v1:
            kernel.violation(PROP, "construction-path", f"verdict {v1} on the graph built by the factory methods, "
                             f"{v3} on the same diagram built with NxMixedGraph(directed=, undirected=)")
    if "graph2" in case:
        v2 = query(_C(), gg.to_nx(case["graph2"]), case["graph2"], case["a"], case["b"], case["C"])
        if v1 != v2:
            kernel.violation(PROP, "insertion-order", f"verdict {v1} vs {v2} for two insertion orders of one graph")


from .. import mon_dsep


def install_for_suite():
    mon_dsep.install()
    install_enumerator()
