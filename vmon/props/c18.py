"""C18 — counterfactual-graph construction preserves the event's probability (DESIGN §4 C18)."""

from __future__ import annotations

from .. import kernel, mon_cf
from ..gen import events as gev
from ..gen import graphs as gg

PROP = "C18"
RULE = (
    "cases = (ADMG n<=4 (5 thorough) with hostile classes, conjunction of 1-3 counterfactual events: several "
    "worlds, shared and distinct subscripts, factual variables, the same base in two worlds, irrelevant "
    "subscripts, reflexive subscripts, worlds differing only in an irrelevant subscript) through the real "
    "make_counterfactual_graph (also every call ID* makes on a share of cases). Post-condition: the relabelled "
    "event is evaluated IN THE ORIGINAL MODEL (its keys are counterfactual variables of G) on K random functional "
    "SCMs with shared exogenous noise (exact rationals; reference/alternative values drawn per variable) and must "
    "have the probability of the original event; an 'inconsistent' verdict is refuted by any model giving the "
    "event positive probability; the returned graph must be acyclic, consist exactly of the ancestors of the "
    "relabelled event and contain its variables; what the graph CLAIMS is checked against the models too (parts of the "
    "relabelled event in different connected components, and event variables m-separated in the graph, must be "
    "independent); the input event dict and graph must be unchanged. non-trivial = "
    ">=2 conjuncts in >=2 worlds (or a world and the factual one) and at least one node merge; distinct by "
    "(graph, event)."
)
ASSUMPTIONS = ["O1 multi-world evaluation (vmon/scm.py); sampled models; literal subscript values"]
MIN_NONTRIVIAL = {"quick": 400, "thorough": 8000}
REQUIRED = ["eval:make_counterfactual_graph", "eval:merge_pw", "C18:probabilities-compared", "C18:structure-checked",
            "C18:component-factorisations-compared", "C18:separated-pairs-compared",
            "C18:inconsistent-verdicts", "C18:positive-probability-cases"]
TIMEOUT = {"quick": 900, "thorough": 7200}


def run_case(ctx, gd, ev, cls, via="cg", rng=None, force_again=False, cards=None):
    from y0.algorithm.identify.cg import make_counterfactual_graph

    g = gg.to_nx(gd)
    kernel.LOG.reset_case({"graph": gd, "event": ev, "via": via, **({"cards": cards} if cards else {})})
    n0 = kernel.LOG.counters.get("eval:merge_pw", 0)
    res = None
    try:
        if via == "cg":
            res = make_counterfactual_graph(g, gev.to_event(ev))
        else:
            from y0.algorithm.identify import id_star

            id_star(g, gev.to_event(ev))
    except Exception as e:  # noqa: BLE001 -- the statement does not promise totality; counted
        kernel.count(f"C18:driver-saw-{type(e).__name__}")
    merges = kernel.LOG.counters.get("eval:merge_pw", 0) - n0
    if via == "cg" and res is not None and rng is not None and (force_again or rng.random() < 0.3):
        # the caller edits what it was handed - the returned graph and event, and a parallel-worlds graph it asked for
        # through the public helper - and then asks the same question again (same graph object or an equal new one)
        from y0.algorithm.identify.cg import extract_interventions, make_parallel_worlds_graph
        from y0.dsl import Variable

        shown = (gev.key(gev.from_event(res[1])) if res[1] is not None else None, sorted(map(str, res[0].nodes())))
        try:
            cg_, ev_ = res
            for n_ in list(cg_.nodes())[:2]:
                cg_.add_directed_edge(Variable("__junk"), n_)
                cg_.add_undirected_edge(Variable("__junk2"), n_)
            if isinstance(ev_, dict):
                ev_.clear()
            with kernel.quiet():
                pw = make_parallel_worlds_graph(g, extract_interventions(gev.to_event(ev)))
            nodes_ = list(pw.nodes())
            for a_, b_ in zip(nodes_, nodes_[1:]):
                pw.add_directed_edge(b_, a_)
                pw.add_undirected_edge(a_, b_)
            pw.add_node(Variable("__junk3"))
        except Exception:  # noqa: BLE001
            kernel.count("C18:could-not-edit-the-first-answer")
        kernel.count("C18:asked-again-after-editing-the-first-answer")
        kernel.LOG.reset_case({"graph": gd, "event": ev, "via": via, "again": True})
        try:
            make_counterfactual_graph(g if rng.random() < 0.5 else gg.to_nx(gd), gev.to_event(ev))
        except Exception as e:  # noqa: BLE001
            kernel.count(f"C18:driver-saw-{type(e).__name__}")
        res = None
        relabelled, cf_nodes = shown
    else:
        relabelled = gev.key(gev.from_event(res[1])) if res and res[1] is not None else None
        cf_nodes = sorted(map(str, res[0].nodes())) if res else None
    worlds = {tuple(map(tuple, c[1])) for c in ev}
    ctx.case(f"{gg.key(gd)}|{gev.key(ev)}|{via}", merges > 0 and len(ev) >= 2 and len(worlds) >= 2,
             sample={"graph": gd, "event": gev.key(ev), "class": cls, "merges": merges,
                     "relabelled": relabelled, "cf_nodes": cf_nodes})


def run_shard(ctx):
    gg.ALLOW_ODD = True  # node names that are not Python identifiers are node names like any other
    mon_cf.install_cg()
    mon_cf.CONFIG.update(K={"quick": 2, "thorough": 3}[ctx.tier])
    rng = ctx.rng
    classes = {}
    for i in range(ctx.share({"quick": 30000, "thorough": 200000}[ctx.tier])):
        n = rng.choice([2, 3, 3, 4, 4, 4] + ([5] if ctx.tier == "thorough" else []))
        gd = gg.random_admg(rng, n)
        ev, cls = gev.random_event(rng, gd)
        if not ev or cls == "contradictory_pair":
            continue
        classes[cls] = classes.get(cls, 0) + 1
        run_case(ctx, gd, ev, cls, via="cg" if i % 4 else "id_star", rng=rng)
    # planted multi-world families (three, four and five worlds in one conjunction; see C08's templates)
    from .c08 import planted_template

    for i in range(ctx.share({"quick": 1200, "thorough": 12000}[ctx.tier])):
        gd, out, cond = planted_template(rng)
        ev = out + cond
        keys, uniq = set(), []
        for c in ev:
            k_ = (c[0], tuple(map(tuple, c[1])))
            if k_ not in keys:
                keys.add(k_)
                uniq.append(c)
        classes["planted_template"] = classes.get("planted_template", 0) + 1
        run_case(ctx, gd, uniq, "planted_template", via="cg", rng=rng)
    # wide graphs: the event lives on a small core; the padding nodes are constants in the exact models
    for i in range(ctx.share({"quick": 600, "thorough": 8000}[ctx.tier])):
        core = gg.random_admg(rng, rng.choice([2, 3, 3, 4]))
        ev, cls = gev.random_event(rng, core)
        if not ev or cls == "contradictory_pair":
            continue
        total = 64 if i % 12 == 0 else rng.randint(10, 14)
        gd, pad = gg.embed_wide(core, rng, total, **({"p_di": 0.02, "p_bi": 0.01} if total == 64 else {}))
        classes["wide:" + cls] = classes.get("wide:" + cls, 0) + 1
        run_case(ctx, gd, ev, cls, via="cg", rng=rng, cards={w: 1 for w in pad})
    ctx.extras["event_classes"] = classes


def replay(case):
    mon_cf.install_cg()
    mon_cf.CONFIG.update(K=4)

    class _C:
        def case(self, *a, **k):
            pass

    gd = case["graph"]
    gd = {"nodes": gd["nodes"], "di": gd["di"], "bi": gd["bi"]}
    import random

    run_case(_C(), gd, [[c[0], [list(w) for w in c[1]], c[2]] for c in case["event"]], "replay", via=case.get("via", "cg"),
             rng=random.Random(0) if case.get("again") else None, force_again=bool(case.get("again")),
             cards=case.get("cards"))


def install_for_suite():
    mon_cf.install_cg()
