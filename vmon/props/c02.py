"""C02 — ID verdicts are total, complete and side-effect free (DESIGN §4 C02)."""

from __future__ import annotations

import itertools as itt

from .. import kernel, mon_graph, mon_id
from ..gen import graphs as gg
from ..gen import queries as gq
from ..snap import freeze_graph

PROP = "C02"
RULE = (
    "cases = (ADMG, disjoint non-empty X,Y) through the real identify_outcomes / identify; EXHAUSTIVE over all "
    "ADMGs on <=3 labelled nodes x all disjoint non-empty (X,Y); random ADMGs n=4..8 with every hostile class "
    "(isolated treatment/outcome, X not ancestor of Y, X u Y = V, several districts); 40-call histories on one "
    "shared graph object; edit histories (call, edit the same graph object in place through add_/remove_ edge or "
    "add_node, call again; one caller-owned Query reused across graphs). Monitors: exception recorder (anything but the refusal is a violation), verdict vs the "
    "Tian-Pearl reference (O4), deep freeze of graph and query objects before/after, activation-count bound. "
    "non-trivial = graph has a bidirected edge and the trace reaches line 4 or later; distinct by (graph,X,Y)."
)
ASSUMPTIONS = ["O4 (vmon/refid.py) is sound and complete for P(y|do x) (Huang-Valtorta 2006)"]
MIN_NONTRIVIAL = {"quick": 1500, "thorough": 30000}
REQUIRED = ["eval:identify_outcomes", "C02:verdict-identifiable", "C02:verdict-refused", "tag:id.line5.fail"]
EXHAUSTIVE = {"quick": "all ADMGs on <=3 labelled nodes x all disjoint non-empty (X,Y)",
              "thorough": "all ADMGs on <=3 labelled nodes x all disjoint non-empty (X,Y)"}
TIMEOUT = {"quick": 900, "thorough": 7200}


def run_case(ctx, g, gd, q, via="outcomes", gkey=None):
    from y0.algorithm.identify import Identification, Query, identify, identify_outcomes
    from y0.dsl import Variable

    X = {Variable(x) for x in q["X"]}
    Y = {Variable(y) for y in q["Y"]}
    kernel.LOG.reset_case({"graph": gd, "X": q["X"], "Y": q["Y"], "via": via})
    try:
        if via == "shared-identify":
            identify(Identification(query=Query(outcomes=Y, treatments=X), graph=g))
        else:
            gq.call_id(g, {"X": q["X"], "Y": q["Y"], "Z": []}, via, prop=PROP)
    except Exception:  # noqa: BLE001  -- judged by the on_raise monitor
        pass
    tags = set(kernel.tags())
    nt = bool(gd["bi"]) and bool(tags & {"id.line4", "id.line5.fail", "id.line6", "id.line7"})
    ctx.case(f"{gkey or gg.key(gd)}|{q['X']}|{q['Y']}", nt,
             sample={"graph": gd, "X": q["X"], "Y": q["Y"], "lines": sorted(tags)})


class _Budget(Exception):
    pass


def run_scale(ctx, name, gd, q, budget):
    """One big structured graph under a LOGICAL step budget: Python function activations inside the call are counted
    with sys.monitoring and the call is aborted when it exceeds ``budget`` (dozens of times what the unchanged tree
    needs) - termination decided by steps, not by the wall clock."""
    import sys

    from y0.algorithm.identify import identify_outcomes
    from y0.dsl import Variable

    g = gg.to_nx(gd, mode=3)
    mon = sys.monitoring
    tool = 4
    n = [0]

    def on_start(code, offset):
        n[0] += 1
        if n[0] > budget:
            mon.set_events(tool, 0)
            raise _Budget()

    kernel.LOG.reset_case({"scale": name, "X": q["X"], "Y": q["Y"]})
    if budget is not None:
        try:
            mon.use_tool_id(tool, "c02-steps")
        except ValueError:
            pass
        mon.register_callback(tool, mon.events.PY_START, on_start)
        mon.set_events(tool, mon.events.PY_START)
    res, verdict = None, "?"
    try:
        # (the per-call monitors rebuild reference graphs on every graph operation - quadratic on a graph of a thousand
        # nodes - so this call runs with them switched off; totality and the verdict are judged right here)
        with kernel.quiet():
            res = identify_outcomes(g, {Variable(x) for x in q["X"]}, {Variable(y) for y in q["Y"]})
        verdict = "estimand" if res is not None else "refused"
    except _Budget:
        verdict = "budget"
    except Exception as e:  # noqa: BLE001 -- the totality monitor has recorded it
        verdict = type(e).__name__
    finally:
        if budget is not None:
            mon.set_events(tool, 0)
            mon.free_tool_id(tool)
    kernel.count("C02:scale-cases")
    kernel.LOG.counters["C02:scale-max-function-activations"] = max(kernel.LOG.counters["C02:scale-max-function-activations"], n[0])
    if verdict == "budget":
        kernel.violation(PROP, "bounded-progress", f"identify_outcomes on the {name} graph ({len(gd['nodes'])} nodes, "
                         f"{len(gd['di'])} directed edges) used more than {budget} function activations without an answer",
                         case={"scale": name, "X": q["X"], "Y": q["Y"]})
    elif verdict not in ("estimand", "refused"):
        kernel.violation(PROP, "total", f"identify_outcomes raised {verdict} on the {name} graph ({len(gd['nodes'])} nodes)",
                         case={"scale": name, "X": q["X"], "Y": q["Y"]})
    if verdict in ("estimand", "refused"):
        from ..refid import identifiable

        want = identifiable(gg.to_rg(gd), {Variable(x) for x in q["X"]}, {Variable(y) for y in q["Y"]})
        kernel.count("C02:scale-verdicts-compared")
        if want != (verdict == "estimand"):
            kernel.violation(PROP, "complete", f"identify_outcomes on the {name} graph: {verdict}, the Tian-Pearl reference says "
                             f"{'identifiable' if want else 'not identifiable'}", case={"scale": name, "X": q["X"], "Y": q["Y"]})
    ctx.case(f"scale|{name}", True, sample={"scale": name, "verdict": verdict, "function_activations": n[0]})


def scale_graph(name):
    """chain<n>: C0000 -> ... (a bidirected edge near the top); ladder<k>: two rails of k layers, every node of a layer
    feeding both nodes of the next (2^k directed paths from X to Y)."""
    if name.startswith("chain"):
        n = int(name[5:])
        nm = [f"C{i:04d}" for i in range(n)]
        return ({"nodes": nm, "di": [[a, b] for a, b in zip(nm, nm[1:])], "bi": [[nm[0], nm[2]]]},
                {"X": [nm[0]], "Y": [nm[-1]]})
    k = int(name[6:])
    a = [f"A{i:02d}" for i in range(k)]
    b = [f"B{i:02d}" for i in range(k)]
    di = []
    for i in range(k - 1):
        di += [[a[i], a[i + 1]], [a[i], b[i + 1]], [b[i], a[i + 1]], [b[i], b[i + 1]]]
    di += [["X", a[0]], ["X", b[0]], [a[-1], "Y"], [b[-1], "Y"]]
    return {"nodes": ["X", "Y"] + a + b, "di": di, "bi": [["X", a[1]]]}, {"X": ["X"], "Y": ["Y"]}


# (name, step budget); None = no step counting (the long chains cost minutes under a per-call callback: they are run
# plain, for the totality clause - a recursion over the path length overflows the interpreter stack there)
SCALE = {"quick": [("ladder24", 30_000_000), ("ladder48", 100_000_000), ("chain300", None), ("chain1050", None)],
         "thorough": [("ladder24", 30_000_000), ("ladder48", 100_000_000), ("ladder64", 200_000_000), ("chain300", None),
                      ("chain1050", None), ("chain2000", None)]}


def run_shard(ctx):
    gg.ALLOW_ODD = True  # node names that are not Python identifiers are node names like any other
    mon_id.install(semantic=False)
    mon_graph.install()
    rng = ctx.rng
    idx = 0
    for n in (2, 3):
        for gd in gg.all_admgs(n):
            idx += 1
            if not ctx.mine(idx):
                continue
            g = gg.to_nx(gd)
            gkey = gg.key(gd)
            nodes = gd["nodes"]
            for X in gg.subsets(nodes):
                if not X:
                    continue
                rest = [v for v in nodes if v not in X]
                for Y in gg.subsets(rest):
                    if Y:
                        run_case(ctx, g, gd, {"X": list(X), "Y": list(Y)}, gkey=gkey)
    hostile_seen, qcls = {}, {}
    for i in range(ctx.share({"quick": 12000, "thorough": 300000}[ctx.tier])):
        n = rng.randint(4, 8)
        gd = gg.random_admg(rng, n)
        q = gq.random_query(rng, gd, max_size=3)
        if q is None:
            continue
        hostile_seen[gd["hostile"]] = hostile_seen.get(gd["hostile"], 0) + 1
        qcls[q["cls"]] = qcls.get(q["cls"], 0) + 1
        via = rng.choice(gq.CALL_FORMS)
        run_case(ctx, gg.to_nx(gd), gd, q, via=via)
    # wide graphs (10..16 nodes): the verdict is compared with the Tian-Pearl reference at any size
    nwide = 0
    for _ in range(ctx.share({"quick": 1500, "thorough": 30000}[ctx.tier])):
        if rng.random() < 0.5:
            core = gg.random_admg(rng, rng.choice([3, 4, 5]))
            q = gq.random_query(rng, core, max_size=3)
            if q is None:
                continue
            # one in four beyond 48 nodes: a small core (bow arcs and all) far inside a graph of bystanders
            gd, _pad = gg.embed_wide(core, rng, rng.randint(10, 16) if rng.random() < 0.75 else rng.randint(49, 72))
        else:
            gd = gg.random_admg(rng, rng.randint(10, 16), hostile=rng.choice(["none", "bow", "bichain", "isolated"]),
                                p_di=rng.choice((0.1, 0.2, 0.3)), p_bi=rng.choice((0.05, 0.1, 0.2)))
            q = gq.random_query(rng, gd, max_size=3)
            if q is None:
                continue
        nwide += 1
        run_case(ctx, gg.to_nx(gd), gd, q, via=rng.choice(("outcomes", "identify", "single", "from_parts", "raw-graph", "str-graph", "str-graph-identify")))
    ctx.extras["wide_graphs"] = nwide
    # very large sparse graphs (64..160 nodes): still only a verdict to compare
    nhuge = 0
    for _ in range(ctx.share({"quick": 48, "thorough": 1000}[ctx.tier])):
        gd = gg.huge_sparse(rng, density=(0.6, 1.4))
        g = gg.to_nx(gd)
        for _q in range(3):
            q = gq.random_query(rng, gd, max_size=2)
            if q is None:
                continue
            nhuge += 1
            run_case(ctx, g, gd, q, via=rng.choice(("outcomes", "identify", "str-graph", "str-graph-identify", "raw-graph")), gkey=gg.key(gd)[:200] + f"|huge{len(gd['di'])}")
    ctx.extras["huge_sparse_cases"] = nhuge
    # histories on one shared graph object
    for _ in range(ctx.share({"quick": 48, "thorough": 1200}[ctx.tier])):
        gd = gg.random_admg(rng, rng.randint(4, 7))
        g = gg.to_nx(gd)
        fz = freeze_graph(g)
        for _s in range(40):
            q = gq.random_query(rng, gd, max_size=3)
            if q:
                run_case(ctx, g, gd, q, via=rng.choice(["outcomes", "identify"]))
        if freeze_graph(g) != fz:
            kernel.violation(PROP, "graph-unchanged", "graph changed over a 40-call history", case={"graph": gd})
    # edit histories: call, edit the SAME graph object in place, call again (and keep one Query object across calls)
    from y0.algorithm.identify import Identification, Query, identify
    from y0.algorithm.identify.utils import Unidentifiable
    from y0.dsl import Variable

    for _ in range(ctx.share({"quick": 160, "thorough": 4000}[ctx.tier])):
        gd = gg.random_admg(rng, rng.randint(3, 6))
        g = gg.to_nx(gd)
        for _s in range(12):
            q = gq.random_query(rng, gd, max_size=2)
            if q:
                run_case(ctx, g, gd, q, via=rng.choice(["outcomes", "identify", "outcomes"]))
            if rng.random() < 0.6:
                gd = gg.edit_inplace(g, gd, rng)
        # one caller-owned Query reused on two graphs
        q = gq.random_query(rng, gd, max_size=2)
        if q:
            query = Query(outcomes={Variable(y) for y in q["Y"]}, treatments={Variable(x) for x in q["X"]})
            for gd2 in (gd, gg.mutate(gd, rng)):
                if not (set(q["X"]) | set(q["Y"])) <= set(gd2["nodes"]):
                    continue
                kernel.LOG.reset_case({"graph": gd2, "X": q["X"], "Y": q["Y"], "via": "shared-query"})
                try:
                    identify(Identification(query=query, graph=gg.to_nx(gd2)))
                except Unidentifiable:
                    pass
                except Exception:  # noqa: BLE001
                    pass
                ctx.case(f"{gg.key(gd2)}|{q['X']}|{q['Y']}|shared", False)
    ctx.extras["hostile_classes"] = hostile_seen
    ctx.extras["query_classes"] = qcls
    # scale: a few big structured graphs, one per shard, under a step budget
    for j, (name, budget) in enumerate(SCALE[ctx.tier]):
        if ctx.mine(3 * j + 1):
            gd_, q_ = scale_graph(name)
            run_scale(ctx, name, gd_, q_, budget)


def replay(case):
    mon_id.install(semantic=False)
    mon_graph.install()

    class _C:
        def case(self, *a, **k):
            pass

    if case.get("scale"):
        gd_, q_ = scale_graph(case["scale"])
        run_scale(_C(), case["scale"], gd_, q_, dict(SCALE["thorough"])[case["scale"]])
        return
    gd = case["graph"]
    gd = {"nodes": gd["nodes"], "di": gd["di"], "bi": gd["bi"]}
    for via in ("outcomes", "identify"):
        run_case(_C(), gg.to_nx(gd), gd, {"X": case["X"], "Y": case["Y"]}, via=via)


def install_for_suite():
    mon_id.install(semantic=False)
