"""C05 — surrogate-outcome / transport (TRSO) estimands equal the target effect (DESIGN §4 C05)."""

from __future__ import annotations

from .. import kernel, mon_dsep, mon_trso
from ..gen import graphs as gg
from ..gen import queries as gq
from ..refgraph import RG
from ..refid import identifiable

PROP = "C05"
RULE = (
    "cases = (ADMG n<=5 with hostile classes, disjoint non-empty X,Y, 0-3 source domains each with an experiment set "
    "Z_i (1-2 nodes) and a surrogate-outcome set W_i (1-2 nodes, disjoint from Z_i)) through the real "
    "identify_target_outcomes; generator biased towards queries the Tian-Pearl reference calls NOT identifiable "
    "from the target alone with experiments on X-nodes (a treatment confounded with its child, experiments "
    "containing that treatment), several usable domains, and no-domain calls. Post-condition: a FAMILY of exact "
    "random SCMs is built -- the target model and per domain a copy re-drawn exactly at the nodes an independent "
    "re-implementation of the selection-diagram construction marks as differing (compared with y0's own T_ nodes) "
    "-- and the estimand (PP[pi*] = target observational, PP[pi_i][Z'] = experiment do(Z'=x) in domain i) must "
    "equal P*(y|do x) for ALL assignments; without domains an estimand is returned iff the reference says "
    "identifiable; any exception is a violation; graph and arguments must be unchanged. non-trivial = an estimand "
    "containing a source-domain term, or any estimand for a query the reference calls unidentifiable from the "
    "target alone; distinct by (graph, X, Y, domains)."
)
ASSUMPTIONS = ["O1/O2 with DESIGN §3 (subscripts of source terms take the query's x)",
               "differing nodes = (De(Z_i)-W_i) u (C(W_i)-An(W_i) in G with edges into Z_i removed) (Tikka & Karvanen)",
               "sampled families, exact equality"]
MIN_NONTRIVIAL = {"quick": 25, "thorough": 600}
REQUIRED = ["eval:identify_target_outcomes", "C05:families-evaluated", "C05:estimands-correct", "C05:estimands-beyond-id",
            "C05:no-domain-cases", "C05:selection-diagrams-compared", "eval:trso_line6", "eval:trso_line9", "eval:trso_line10",
            "eval:activate_domain_and_interventions", "C05:line10:working-distribution-not-a-joint"]
TIMEOUT = {"quick": 900, "thorough": 7200}


def random_domains(rng, gd, q, biased):
    nodes = sorted(gd["nodes"])
    k = rng.choice([0, 1, 1, 2, 2, 3])
    doms = {}
    for i in range(k):
        if biased and rng.random() < 0.8:
            z = [rng.choice(q["X"])]
            if rng.random() < 0.4:
                extra = [v for v in nodes if v not in z]
                if extra:
                    z.append(rng.choice(extra))
        else:
            z = rng.sample(nodes, rng.randint(1, min(2, len(nodes) - 1)))
        rest = [v for v in nodes if v not in z]
        if not rest:
            continue
        if biased and rng.random() < 0.6:
            pref = [v for v in q["Y"] if v in rest] or rest
            w = [rng.choice(pref)]
            if rng.random() < 0.4:
                more = [v for v in rest if v not in w]
                if more:
                    w.append(rng.choice(more))
        else:
            w = rng.sample(rest, rng.randint(1, min(2, len(rest))))
        doms[f"π{i + 1}"] = (sorted(set(z)), sorted(set(w)))
    return doms


def biased_case(rng):
    """A graph in which a treatment is confounded with one of its descendants on the way to the outcome."""
    n = rng.choice([3, 4, 4, 5, 5])
    gd = gg.random_admg(rng, n, hostile=rng.choice(["none", "bow", "bichain", "onedistrict"]))
    q = gq.random_query(rng, gd, max_size=2)
    if q is None:
        return None
    x = rng.choice(q["X"])
    kids = [v for u, v in gd["di"] if u == x]
    if kids:
        c = rng.choice(kids)
        if [x, c] not in gd["bi"] and [c, x] not in gd["bi"]:
            gd["bi"].append([x, c])
    return gd, q


def run_case(ctx, gd, q, doms, cards=None):
    from y0.algorithm.transport import identify_target_outcomes
    from y0.dsl import Variable

    g = gg.to_nx(gd)
    kernel.LOG.reset_case({"graph": gd, "X": q["X"], "Y": q["Y"], "domains": doms, **({"cards": cards} if cards else {})})
    so = {Variable(p): {Variable(w) for w in zw[1]} for p, zw in doms.items()}
    # the two per-domain dictionaries are keyed by domain; a caller need not list the domains in the same order
    keys = list(doms)
    if sum(map(ord, gg.key(gd))) % 2:
        keys.reverse()
    si = {Variable(p): {Variable(z) for z in doms[p][0]} for p in keys}
    res = None
    # caller-owned objects shared between arguments: when a domain's experiment set (outcome set) equals the target
    # interventions (outcomes), the very same set object is passed in both places on alternate cases
    tx = {Variable(x) for x in q["X"]}
    ty = {Variable(y) for y in q["Y"]}
    if sum(map(ord, gg.key(gd))) % 3 == 0:
        for p_ in list(si):
            if si[p_] == tx:
                si[p_] = tx
                kernel.count("C05:aliased-argument-sets")
            if so[p_] == ty:
                so[p_] = ty
                kernel.count("C05:aliased-argument-sets")
    two_step = sum(map(ord, gg.key(gd) + "".join(q["X"]))) % 4 == 1
    if two_step:
        # the public two-step route: surrogate_to_transport, then trso on a TRSOQuery the caller assembles (what
        # identify_target_outcomes does after its input checks); judged by the same post-condition
        from y0.algorithm.transport import TRSOQuery, surrogate_to_transport, trso
        from y0.dsl import TARGET_DOMAIN, Distribution, PopulationProbability

        kernel.count("C05:two-step-calls")
        snap = mon_trso._pre(g, target_outcomes=ty, target_interventions=tx, surrogate_outcomes=so,
                             surrogate_interventions=si)
        exc = None
        try:
            tq = surrogate_to_transport(graph=g, target_outcomes=ty, target_interventions=tx, surrogate_outcomes=so,
                                        surrogate_interventions=si)
            res = trso(TRSOQuery(target_interventions=tq.target_interventions, target_outcomes=tq.target_outcomes,
                                 expression=PopulationProbability(population=TARGET_DOMAIN,
                                                                  distribution=Distribution.safe(g.nodes())),
                                 active_interventions=set(), domain=TARGET_DOMAIN, domains=tq.domains, graphs=tq.graphs,
                                 surrogate_interventions=tq.surrogate_interventions))
        except Exception as e:  # noqa: BLE001
            exc = e
        mon_trso._judge(snap, res, exc, g, ty, tx, so, si)
    else:
        try:
            res = identify_target_outcomes(g, target_outcomes=ty, target_interventions=tx,
                                           surrogate_outcomes=so, surrogate_interventions=si)
        except Exception:  # noqa: BLE001 -- judged by the monitor
            pass
    s = str(res)
    beyond = res is not None and not identifiable(gg.to_rg(gd), {Variable(x) for x in q["X"]}, {Variable(y) for y in q["Y"]})
    nt = res is not None and ("PP[π" in s or beyond)
    ctx.case(f"{gg.key(gd)}|{q['X']}|{q['Y']}|{sorted(doms.items())}", nt,
             sample={"graph": gd, "X": q["X"], "Y": q["Y"], "domains": doms, "estimand": s,
                     "lines": sorted(mon_trso.FACTS.get("lines", ()))})


def run_shard(ctx):
    gg.ALLOW_ODD = True  # node names that are not Python identifiers are node names like any other
    gg.ALLOW_PREFIXED = False  # a name T_x is a selection node for the transport algorithms
    mon_trso.install(semantic=True, K={"quick": 2, "thorough": 3}[ctx.tier])
    mon_dsep.install()
    rng = ctx.rng
    pool: list = []
    pool2: list = []  # cases whose line 10 worked on a distribution that is not a joint (a second line 10 after line 2)
    for i in range(ctx.share({"quick": 2500, "thorough": 40000}[ctx.tier])):
        biased = i % 3 != 0
        if biased:
            bc = biased_case(rng)
            if bc is None:
                continue
            gd, q = bc
        else:
            gd = gg.random_admg(rng, rng.choice([3, 4, 4, 5, 5]))
            q = gq.random_query(rng, gd)
            if q is None:
                continue
        doms = random_domains(rng, gd, q, biased) if i % 10 else {}
        run_case(ctx, gd, q, doms)
        if "trso_line10" in mon_trso.FACTS.get("lines", ()):
            pool.append((gd, q, doms))
        if mon_trso.FACTS.get("line10_not_joint"):
            pool2.append((gd, q, doms))
    # planted: the 7 -> 2 -> 7 and 7 -> 2 -> 6 families of C01 (line 10 a second time, on a working distribution that is
    # no longer a joint), alone and with random source domains; they also seed the second feedback pool
    from .c01 import planted_7_2_6, planted_7_2_7

    for i in range(ctx.share({"quick": 240, "thorough": 3000}[ctx.tier])):
        gd, q = (planted_7_2_7 if i % 3 else planted_7_2_6)(rng)
        q = {"X": q["X"], "Y": q["Y"]}
        doms = random_domains(rng, gd, q, True) if i % 2 else {}
        run_case(ctx, gd, q, doms)
        kernel.count("C05:planted-line10-twice-cases")
        if mon_trso.FACTS.get("line10_not_joint") and len(gd["nodes"]) <= 6:
            pool2.append((gd, q, doms))
    # feedback: line 10 (ID's line 7) is reached by ~4 % of random cases; cases that reached it are kept and mutated
    fb = {"line10_cases": 0}
    for i in range(ctx.share({"quick": 2500, "thorough": 40000}[ctx.tier])):
        if pool and rng.random() < 0.9:
            gd, q, doms = rng.choice(pool2 if pool2 and rng.random() < 0.35 else pool)
            gd = gg.mutate(gd, rng)
            if rng.random() < 0.3:
                q = gq.random_query(rng, gd) or q
            if not (set(q["X"]) | set(q["Y"])) <= set(gd["nodes"]):
                continue
            if rng.random() < 0.5:
                doms = random_domains(rng, gd, q, True) if rng.random() < 0.7 else {}
            if any(not set(z + w) <= set(gd["nodes"]) for z, w in doms.values()):
                doms = {}
        else:
            gd = gg.random_admg(rng, rng.choice([4, 5, 5]), hostile=rng.choice(["onedistrict", "bichain", "bow", "none"]))
            q = gq.random_query(rng, gd)
            if q is None:
                continue
            doms = {}
        run_case(ctx, gd, q, doms)
        if "trso_line10" in mon_trso.FACTS.get("lines", ()):
            fb["line10_cases"] += 1
            if len(pool) < 300:
                pool.append((gd, q, doms))
            else:
                pool[rng.randrange(len(pool))] = (gd, q, doms)
        if mon_trso.FACTS.get("line10_not_joint"):
            fb["line10_not_joint_cases"] = fb.get("line10_not_joint_cases", 0) + 1
            if len(pool2) < 300:
                pool2.append((gd, q, doms))
            else:
                pool2[rng.randrange(len(pool2))] = (gd, q, doms)
    ctx.extras["feedback"] = fb
    # wide graphs: a small core (query and domains on it) embedded in 10..14 nodes whose padding is constant in the models
    nw = 0
    for i in range(ctx.share({"quick": 400, "thorough": 6000}[ctx.tier])):
        bc = biased_case(rng) if i % 2 else None
        if bc is None:
            core = gg.random_admg(rng, rng.choice([3, 4, 4, 5]))
            q = gq.random_query(rng, core)
            if q is None:
                continue
        else:
            core, q = bc
        if len(core["nodes"]) > 6:
            continue
        doms = random_domains(rng, core, q, True) if i % 5 else {}
        if nw % 8 == 7:
            gd, pad = gg.embed_wide(core, rng, rng.choice([64, 65, 100]), p_di=0.02, p_bi=0.01)
        else:
            gd, pad = gg.embed_wide(core, rng, rng.randint(10, 14))
        nw += 1
        run_case(ctx, gd, q, doms, cards={w: 1 for w in pad})
    ctx.extras["wide_graphs"] = nw


def replay(case):
    mon_trso.install(semantic=True, K=4)
    mon_dsep.install()

    class _C:
        def case(self, *a, **k):
            pass

    gd = case["graph"]
    gd = {"nodes": gd["nodes"], "di": gd["di"], "bi": gd["bi"]}
    doms = {p: (list(zw[0]), list(zw[1])) for p, zw in (case.get("domains") or {}).items()}
    run_case(_C(), gd, {"X": case["X"], "Y": case["Y"]}, doms, cards=case.get("cards"))


def install_for_suite():
    mon_trso.install(semantic=True, K=2)
