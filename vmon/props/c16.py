"""C16 — LV-DAG conversion round-trips; Evans simplification keeps the observed model (DESIGN §4 C16)."""

from __future__ import annotations

import itertools as itt

from .. import kernel
from ..gen import graphs as gg
from ..refgraph import RG, dag_d_separated, latent_projection
from ..refid import identifiable

PROP = "C16"
RULE = (
    "cases = (a) ADMGs (exhaustive on <=3 labelled nodes, random hostile n=4..7 incl. isolated and bidirected-only "
    "nodes) through the real to_latent_variable_dag / from_latent_variable_dag round trip; (b) random DAGs n<=7 with "
    "a random subset tagged latent (latents with parents, with 0/1/many children, latent->latent chains, duplicated "
    "and nested child sets, observed nodes without edges) through the real simplify_latent_dag, and ADMGs with extra "
    "latents through evans_simplify; (c) taheri_design_dag on small DAGs. Post-conditions: round trip equals the "
    "input (reference set algebra and y0's own ==); simplification keeps every observed node, is idempotent, and "
    "the ADMG read off the result equals the reference latent projection (Verma/Evans path definition) of the "
    "ORIGINAL DAG; m-separation among observed nodes (Bayes ball on the original DAG vs on the result) and Tian-Pearl "
    "identifiability verdicts are compared on a sample; taheri verdicts vs the reference on the projection. "
    "non-trivial = the DAG has a latent with a parent or >=2 latents / the ADMG has an isolated node or a "
    "bidirected edge; distinct by canonical graph text."
)
ASSUMPTIONS = ["O3 latent_projection / Bayes ball (vmon/refgraph.py), O4 (vmon/refid.py)"]
MIN_NONTRIVIAL = {"quick": 1500, "thorough": 30000}
REQUIRED = ["eval:simplify_latent_dag", "eval:NxMixedGraph.to_latent_variable_dag",
            "eval:NxMixedGraph.from_latent_variable_dag", "eval:evans_simplify", "C16:projection-compared",
            "C16:idempotence-checked", "C16:roundtrip-compared", "C16:separation-queries-compared",
            "C16:single-rule-projections-compared",
            "C16:taheri-verdicts-compared"]
EXHAUSTIVE = {"quick": "round trip: all labelled ADMGs on <=3 nodes", "thorough": "round trip: all labelled ADMGs on <=4 nodes"}
TIMEOUT = {"quick": 900, "thorough": 7200}

TAG = "hidden"


def dag_snapshot(d, tag):
    return (frozenset((n, bool(a.get(tag))) for n, a in d.nodes(data=True)), frozenset(d.edges()))


def _fmt_dag(snap):
    nodes, edges = snap
    return {"observed": sorted(str(n) for n, l in nodes if not l), "latent": sorted(str(n) for n, l in nodes if l),
            "edges": sorted(f"{u}->{v}" for u, v in edges)}


def _fmt_rg(r: RG):
    return {"nodes": sorted(map(str, r.V)), "di": sorted(f"{u}->{v}" for u, v in r.D),
            "bi": sorted("<->".join(sorted(map(str, e))) for e in r.B)}


def classify(snap):
    return None


# ---- monitors -------------------------------------------------------------------------


def _tagname(tag):
    import y0.graph as yg

    return tag if tag is not None else yg.DEFAULT_TAG


def _pre_simplify(graph, *, tag=None):
    return {"before": dag_snapshot(graph, _tagname(tag))}


def _post_simplify(snap, res, graph, *, tag=None):
    import y0.algorithm.simplify_latent as sl
    from y0.graph import NxMixedGraph

    tag = _tagname(tag)
    nodes0, edges0 = snap["before"]
    obs0 = {n for n, l in nodes0 if not l}
    lat0 = {n for n, l in nodes0 if l}
    out = res.graph
    after = dag_snapshot(out, tag)
    case = {"dag": _fmt_dag(snap["before"])}
    missing = obs0 - set(out.nodes())
    if missing:
        kernel.violation(PROP, "observed-kept", f"simplify_latent_dag dropped observed node(s) {sorted(map(str, missing))} "
                         f"of {case['dag']}", case=case)
    retagged = [n for n in obs0 & set(out.nodes()) if out.nodes[n].get(tag)]
    if retagged:
        kernel.violation(PROP, "observed-kept", f"observed node(s) {retagged} became latent", case=case)
    want = latent_projection({n for n, _ in nodes0}, edges0, lat0)
    try:
        admg = NxMixedGraph.from_latent_variable_dag(out, tag=tag)
        got = RG.from_nx(admg)
        # nodes without any edge are not representable by the edge-driven reader unless it adds them
        kernel.count("C16:projection-compared")
        if got != want:
            kernel.violation(PROP, "projection", f"the ADMG read off the simplified DAG is {_fmt_rg(got)} but the latent "
                             f"projection of the original DAG {case['dag']} is {_fmt_rg(want)}", case=case,
                             mech=classify_projection(got, want))
    except Exception as e:  # noqa: BLE001
        kernel.violation(PROP, "projection", f"reading the simplified DAG raised {type(e).__name__}: {e}", case=case)
    # idempotence
    orig = getattr(sl.simplify_latent_dag, "__vmon_original__", sl.simplify_latent_dag)
    again = out.copy()
    try:
        orig(again, tag=tag)
        kernel.count("C16:idempotence-checked")
        second = dag_snapshot(again, tag)
        if second != after:
            kernel.violation(PROP, "idempotent", f"simplifying twice differs: first {_fmt_dag(after)}, second "
                             f"{_fmt_dag(second)} (original {case['dag']})", case=case, mech=classify_idem(after, second))
    except Exception as e:  # noqa: BLE001
        kernel.violation(PROP, "idempotent", f"second simplification raised {type(e).__name__}: {e}", case=case)


def classify_projection(got: RG, want: RG):
    if got.D == want.D and got.B == want.B and got.V < want.V:
        return None
    return None


def classify_idem(first, second):
    return None


def _pre_to_lv(self, *, prefix=None, start=0, tag=None):
    return {"ref": RG.from_nx(self)}


def _post_to_lv(snap, res, self, *, prefix=None, start=0, tag=None):
    tag = _tagname(tag)
    ref = snap["ref"]
    case = {"graph": _fmt_rg(ref)}
    nodes, edges = dag_snapshot(res, tag)
    if any(tag not in a for _, a in res.nodes(data=True)):
        kernel.violation(PROP, "lvdag-shape", f"to_latent_variable_dag left nodes without the tag {tag!r}", case=case)
        return
    obs = {n for n, l in nodes if not l}
    lat = {n for n, l in nodes if l}
    problems = []
    if obs != set(ref.V):
        problems.append(f"observed nodes {sorted(map(str, obs))} != graph nodes {sorted(map(str, ref.V))}")
    di = {(u, v) for u, v in edges if u in obs}
    if di != set(ref.D):
        problems.append("directed edges among observed nodes differ")
    kids = {}
    for u, v in edges:
        if u in lat:
            kids.setdefault(u, set()).add(v)
    if sorted(map(sorted_str, (frozenset(k) for k in kids.values()))) != sorted(map(sorted_str, ref.B)) or len(kids) != len(lat):
        problems.append(f"latent parents {sorted(sorted(map(str, k)) for k in kids.values())} do not match the bidirected edges")
    if any(v in lat for _, v in edges):
        problems.append("a latent node has a parent")
    kernel.count("C16:lvdag-shape-checked")
    if problems:
        kernel.violation(PROP, "lvdag-shape", f"to_latent_variable_dag on {case['graph']}: " + "; ".join(problems), case=case)


def sorted_str(s):
    return sorted(map(str, s))


def _post_evans(snap, res, graph, *, latents=None, tag=None):
    from y0.dsl import Variable

    ref = RG.from_nx(graph)
    extra = set()
    if latents is not None:
        if isinstance(latents, Variable):
            extra = {latents}
        elif isinstance(latents, (set, frozenset, list, tuple)):
            extra = set(latents)
        else:  # a one-shot iterable: consumed by the call; the driver's record stands in, otherwise not judged
            c = kernel.LOG.case
            if not (isinstance(c, dict) and isinstance(c.get("latents"), list)):
                kernel.count("C16:evans-one-shot-latents-not-judged")
                return
            extra = {Variable(x) for x in c["latents"]}
    nodes = set(ref.V)
    edges = set(ref.D)
    lat = set(extra)
    for e in ref.B:
        e = sorted(e, key=str)
        l = ("L", e[0], e[1])
        nodes.add(l)
        lat.add(l)
        edges.add((l, e[0]))
        edges.add((l, e[1]))
    want = latent_projection(nodes, edges, lat)
    got = RG.from_nx(res)
    kernel.count("C16:evans-compared")
    if got != want:
        kernel.violation(PROP, "projection", f"evans_simplify({_fmt_rg(ref)}, latents={sorted(map(str, extra))}) = "
                         f"{_fmt_rg(got)}, latent projection = {_fmt_rg(want)}",
                         case={"graph": _fmt_rg(ref), "latents": sorted(map(str, extra))})


# ---- the four rules, each on its own (they are public): a rule must not change the latent projection ----------------


def _pre_rule(graph, *a, **k):
    tag = _tagname(k.get("tag") if "tag" in k else (a[0] if a and isinstance(a[0], str) else None))
    return {"before": dag_snapshot(graph, tag), "tag": tag}


def _mk_post_rule(name, needs_exogenous):
    def post(snap, res, graph, *a, **k):
        if snap is None:
            return
        tag = snap["tag"]
        nodes0, edges0 = snap["before"]
        lat0 = {n for n, l in nodes0 if l}
        if needs_exogenous and any(v in lat0 for _, v in edges0):
            # the rule is stated for exogenous latents (after the transformation of latents with parents)
            kernel.count(f"C16:{name}:latent-with-parent-skipped")
            return
        out = res[0] if isinstance(res, tuple) else res
        nodes1, edges1 = dag_snapshot(out, tag)
        lat1 = {n for n, l in nodes1 if l}
        obs0 = {n for n, l in nodes0 if not l}
        want = latent_projection({n for n, _ in nodes0}, edges0, lat0)
        got = latent_projection({n for n, _ in nodes1}, edges1, lat1)
        kernel.count(f"C16:{name}:projection-compared")
        kernel.count("C16:single-rule-projections-compared")
        if got != want or not obs0 <= {n for n, l in nodes1 if not l}:
            kernel.violation(PROP, "rule-keeps-projection", f"{name} changed the latent projection: before {_fmt_dag(snap['before'])} "
                             f"-> {_fmt_rg(want)}, after {_fmt_dag((nodes1, edges1))} -> {_fmt_rg(got)}",
                             case={"dag": _fmt_dag(snap["before"]), "rule": name})

    return post


def install():
    import y0.algorithm.simplify_latent as sl
    import y0.graph as yg

    for name, needs in (("remove_widow_latents", False), ("transform_latents_with_parents", False),
                        ("remove_unidirectional_latents", True), ("remove_redundant_latents", True)):
        kernel.install_function(sl, name, label=name, pre=_pre_rule, post=_mk_post_rule(name, needs))

    kernel.install_function(sl, "simplify_latent_dag", label="simplify_latent_dag", pre=_pre_simplify, post=_post_simplify)
    kernel.install_function(sl, "evans_simplify", label="evans_simplify", post=_post_evans)
    kernel.install_method(yg.NxMixedGraph, "to_latent_variable_dag", pre=_pre_to_lv, post=_post_to_lv)
    kernel.install_method(yg.NxMixedGraph, "from_latent_variable_dag", label="NxMixedGraph.from_latent_variable_dag")


# ---- workload -------------------------------------------------------------------------


def random_lvdag(rng, n=None):
    """Random DAG description {"nodes": [...], "latent": [...], "edges": [[u,v]..]} with hostile quotas."""
    n = n or rng.randint(3, 7)
    names = [f"N{i}" for i in range(n)]
    style = rng.random()
    if style < 0.12:
        # names that look like the ones the transformation itself makes up (<latent>_prime), without clashing
        names = [f"K{i}_prime" if rng.random() < 0.5 else f"N{i}" for i in range(n)]
    elif style < 0.2 and ALLOW_PRIME_CLASH:
        # ... and clashing: a node is already called what the replacement of another latent would be called
        j = rng.randrange(n - 1)
        names[j + 1] = names[j] + "_prime"
    order = names[:]
    rng.shuffle(order)
    p = rng.choice([0.25, 0.4, 0.6])
    edges = [[order[i], order[j]] for i in range(n) for j in range(i + 1, n) if rng.random() < p]
    plat = rng.choice([0.25, 0.4, 0.55])
    latent = [v for v in names if rng.random() < plat]
    cls = rng.choice(["none", "chain", "widowchain", "dupkids", "nested", "isolated_obs", "single_child", "all_obs"])
    pos = {v: i for i, v in enumerate(order)}
    if cls == "chain" and n >= 4:
        a, b, c = sorted(rng.sample(order, 3), key=pos.get)
        for e in ([a, b], [b, c]):
            if e not in edges:
                edges.append(e)
        latent = sorted(set(latent) | {a, b})
    elif cls == "widowchain" and n >= 3:
        a, b = sorted(rng.sample(order, 2), key=pos.get)
        edges = [e for e in edges if e[0] != b]
        if [a, b] not in edges:
            edges.append([a, b])
        edges = [e for e in edges if e[0] != a or e[1] == b]
        latent = sorted(set(latent) | {a, b})
    elif cls in ("dupkids", "nested") and n >= 5:
        a, b = order[0], order[1]
        kids = rng.sample(order[2:], min(len(order) - 2, rng.randint(2, 3)))
        edges = [e for e in edges if e[0] not in (a, b) and e[1] not in (a, b)]
        for k in kids:
            edges.append([a, k])
        for k in (kids if cls == "dupkids" else kids[:-1]):
            edges.append([b, k])
        latent = sorted(set(latent) | {a, b})
    elif cls == "isolated_obs":
        v = rng.choice(names)
        edges = [e for e in edges if v not in e]
        latent = [x for x in latent if x != v]
    elif cls == "single_child":
        v = rng.choice(order[:-1])
        outs = [e for e in edges if e[0] == v]
        for e in outs[1:]:
            edges.remove(e)
        latent = sorted(set(latent) | {v})
    elif cls == "all_obs":
        latent = []
    if len(latent) == n:
        latent = latent[:-1]
    rng.shuffle(edges)
    ins = names[:]
    rng.shuffle(ins)
    return {"nodes": ins, "latent": sorted(latent), "edges": edges, "cls": cls}


ALLOW_PRIME_CLASH = True
TAG_REPS = ("bool", "int", "numpy.bool_")


def _tag_value(flag, rep):
    if rep == "int":
        return int(flag)
    if rep == "numpy.bool_":
        import numpy

        return numpy.bool_(flag)
    return bool(flag)


def nested_latents(rng):
    """Latents whose children are latents: a tree of 2-3 levels of latents above observed leaves, plus a few extras."""
    k = rng.randint(2, 4)
    top = ["A"]
    mid = [f"M{i}" for i in range(k)]
    leaves = [f"X{i}" for i in range(rng.randint(k, k + 2))]
    edges = [["A", m] for m in mid if rng.random() < 0.85]
    for j, x in enumerate(leaves):
        edges.append([mid[j % k], x])
        if rng.random() < 0.3:
            edges.append([rng.choice(mid), x])
    latent = set(top + mid)
    extra = [f"Z{i}" for i in range(rng.randint(0, 2))]
    for z in extra:
        if rng.random() < 0.5:
            edges.append([z, rng.choice(mid)])  # a latent with an observed parent
        else:
            edges.append([rng.choice(mid + top), z])
        if rng.random() < 0.3:
            latent.add(z)
    edges = [list(e) for e in dict.fromkeys(map(tuple, edges))]
    nodes = top + mid + leaves + extra
    rng.shuffle(nodes)
    return {"nodes": nodes, "latent": sorted(latent), "edges": edges, "cls": "nested-latents"}


def build_dag(dd, tag=TAG):
    """The LV-DAG as a caller would hold it; the latent mark is a Python bool, or - as a graph loaded from a table or an
    array mask would carry it - 0/1 or numpy.bool_ (chosen by a checksum of the description)."""
    import networkx as nx
    from y0.dsl import Variable

    ck = sum(map(ord, "".join(dd["nodes"]) + "".join(dd["latent"])))
    rep = dd.get("tag_rep") or TAG_REPS[ck % 5 % 3]
    kernel.count("C16:tag-representation:" + rep)
    g = nx.DiGraph()
    if ck % 7 == 3:
        # the library's own helper marks the latents (a set, a list, a generator or a single variable)
        from y0.graph import set_latent

        g.add_nodes_from(Variable(n) for n in dd["nodes"])
        lat = [Variable(n) for n in dd["latent"]]
        arg = set(lat) if ck % 4 == 0 else (lat if ck % 4 == 1 else ((x for x in lat) if ck % 4 == 2 else
                                                                      (lat[0] if len(lat) == 1 else tuple(lat))))
        set_latent(g, arg, tag=tag)
        kernel.count("C16:latents-marked-by-set_latent")
        for u, v in dd["edges"]:
            g.add_edge(Variable(u), Variable(v))
        return g
    for n in dd["nodes"]:
        g.add_node(Variable(n), **{tag: _tag_value(n in dd["latent"], rep)})
    for u, v in dd["edges"]:
        g.add_edge(Variable(u), Variable(v))
    return g


def dag_key(dd):
    return "N" + ",".join(sorted(dd["nodes"])) + "|L" + ",".join(sorted(dd["latent"])) + "|E" + \
        ",".join(sorted(f"{u}>{v}" for u, v in dd["edges"]))


def run_dag(ctx, dd, rng, check_sep=False):
    from y0.algorithm.simplify_latent import simplify_latent_dag
    from y0.dsl import Variable
    from y0.graph import NxMixedGraph

    g = build_dag(dd)
    kernel.LOG.reset_case({"dag": dd})
    nodes0 = {Variable(n) for n in dd["nodes"]}
    lat0 = {Variable(n) for n in dd["latent"]}
    edges0 = {(Variable(u), Variable(v)) for u, v in dd["edges"]}
    res = None
    try:
        res = simplify_latent_dag(g, tag=TAG)
    except Exception as e:  # noqa: BLE001
        kernel.violation(PROP, "total", f"simplify_latent_dag raised {type(e).__name__}: {e} on {dd}", case={"dag": dd})
    has_parented_latent = any(v in dd["latent"] for _, v in dd["edges"])
    ctx.case(dag_key(dd), res is not None and (has_parented_latent or len(dd["latent"]) >= 2),
             sample={"dag": dd, "simplified": _fmt_dag(dag_snapshot(res.graph, TAG)) if res else None})
    if res is not None and rng.random() < 0.2:
        # history: the simplified DAG is edited by its owner (a parent for one of the latents that are left - among them
        # the made-up <latent>_prime nodes - or another node marked latent) and simplified again
        import networkx as nx

        d = res.graph
        lat = [n for n, a in d.nodes(data=True) if a.get(TAG)]
        obs = [n for n, a in d.nodes(data=True) if not a.get(TAG)]
        if lat and obs and rng.random() < 0.7:
            l = rng.choice(sorted(lat, key=str))
            cand = [a for a in sorted(obs, key=str) if a not in nx.descendants(d, l)]
            if cand:
                d.add_edge(rng.choice(cand), l)
        elif len(obs) >= 3:
            d.nodes[rng.choice(sorted(obs, key=str))][TAG] = True
        kernel.LOG.reset_case({"dag": dd, "history": "edited-after-simplification"})
        try:
            simplify_latent_dag(d, tag=TAG)
            kernel.count("C16:second-simplification-after-edit")
        except Exception as e:  # noqa: BLE001
            kernel.violation(PROP, "total", f"simplify_latent_dag raised {type(e).__name__}: {e} on an edited simplified DAG "
                             f"(original {dd})", case={"dag": dd})
        return
    if res is None or not check_sep:
        return
    # consequences: separations among observed nodes and identifiability verdicts are unchanged
    with kernel.quiet():
        admg = RG.from_nx(NxMixedGraph.from_latent_variable_dag(res.graph, tag=TAG))
    obs = sorted(nodes0 - lat0, key=str)
    if not set(obs) <= set(admg.V) or len(obs) < 2:
        return
    for _ in range(6):
        a, b = rng.sample(obs, 2)
        rest = [v for v in obs if v not in (a, b)]
        C = set(rng.sample(rest, rng.randint(0, len(rest)))) if rest else set()
        want = dag_d_separated(nodes0, edges0, a, b, C)
        got = admg.m_separated(a, b, C)
        kernel.count("C16:separation-queries-compared")
        if want != got:
            kernel.violation(PROP, "separation-preserved", f"{a} vs {b} given {sorted(map(str, C))}: d-separated in the "
                             f"original DAG = {want}, m-separated in the ADMG read off the simplified DAG = {got}; {dd}",
                             case={"dag": dd})
    proj = latent_projection(nodes0, edges0, lat0)
    if proj.is_acyclic() and admg.is_acyclic():
        a, b = rng.sample(obs, 2)
        kernel.count("C16:identifiability-verdicts-compared")
        if identifiable(proj, {a}, {b}) != identifiable(admg, {a}, {b}):
            kernel.violation(PROP, "identifiability-preserved", f"P({b}|do({a})) identifiability differs between the "
                             f"latent projection and the ADMG read off the simplified DAG; {dd}", case={"dag": dd})


def colliding_names(gd, rng):
    """Rename one or two nodes to the very names the conversion would make up for its latents under the options chosen:
    <prefix><start>, <prefix><start+1> (negative starts and signs included).  -> (graph, options)"""
    prefix = rng.choice([None, None, "L", "u_", "V", "lat-"])
    start = rng.choice([0, 0, 1, 7, -1, -2, 10])
    p_ = prefix if prefix is not None else "u_"
    victims = rng.sample(gd["nodes"], min(len(gd["nodes"]), rng.choice([1, 2])))
    ren = {v: f"{p_}{start + i}" for i, v in enumerate(victims)}
    ren = {k_: v_ for k_, v_ in ren.items() if v_ not in gd["nodes"]}
    m = lambda n: ren.get(n, n)  # noqa: E731
    gd2 = {"nodes": [m(n) for n in gd["nodes"]], "di": [[m(a), m(b)] for a, b in gd["di"]],
           "bi": [[m(a), m(b)] for a, b in gd["bi"]], "hostile": "names-collide-with-latent-options"}
    opts = {}
    if prefix is not None:
        opts["prefix"] = prefix
    if start != 0 or rng.random() < 0.3:
        opts["start"] = start
    return gd2, opts


def run_roundtrip(ctx, gd, opts=None):
    from y0.graph import NxMixedGraph

    g = gg.to_nx(gd)
    kernel.LOG.reset_case({"graph": gd, **({"opts": opts} if opts is not None else {})})
    ref = RG.from_nx(g)
    # the options of the conversion: latent-name prefix (also one that clashes with the node names), first number, tag
    k = sum(map(ord, gg.key(gd)))
    kw = {}
    if k % 3 == 1:
        kw["prefix"] = ("L", "V", "u_", "T_")[k // 3 % 4]
    if k % 5 in (1, 2, 3):
        kw["start"] = (1, 7, -1)[k % 5 - 1] if k % 2 else (1, 7, -2)[k % 5 - 1]
    tag = (None, "latent_flag")[k // 7 % 2]
    if opts is not None:
        kw = dict(opts)
    if tag:
        kw["tag"] = tag
    kernel.count("C16:roundtrip-options:" + ",".join(sorted(kw)) if kw else "C16:roundtrip-options:defaults")
    try:
        if k % 4 == 2:
            # the caller edits a first conversion result, then converts the same graph object again
            first = g.to_latent_variable_dag(**kw)
            from y0.dsl import Variable as _V

            first.add_edge(_V("__junk"), next(iter(first.nodes()), _V("__junk2")))
            for _n, _a in first.nodes(data=True):
                _a[tag or "hidden"] = True
            kernel.count("C16:asked-again-after-editing-the-first-answer")
        back = NxMixedGraph.from_latent_variable_dag(g.to_latent_variable_dag(**kw), **({"tag": tag} if tag else {}))
    except Exception as e:  # noqa: BLE001
        kernel.violation(PROP, "roundtrip", f"round trip raised {type(e).__name__}: {e} on {gd}", case={"graph": gd})
        return
    got = RG.from_nx(back)
    kernel.count("C16:roundtrip-compared")
    if got != ref or not (back == g):
        mech = "roundtrip.edgeless-node-lost" if (got.D == ref.D and got.B == ref.B and got.V < ref.V) else None
        kernel.violation(PROP, "roundtrip", f"from_latent_variable_dag(to_latent_variable_dag(G)) = {_fmt_rg(got)} for G = "
                         f"{_fmt_rg(ref)}", case={"graph": gd, **({"opts": opts} if opts is not None else {})}, mech=mech)
    touched = {x for e in gd["di"] + gd["bi"] for x in e}
    ctx.case("rt|" + gg.key(gd), bool(gd["bi"]) or len(touched) < len(gd["nodes"]),
             sample={"graph": gd, "roundtrip_equal": got == ref})


def run_evans(ctx, gd, rng):
    from y0.algorithm.simplify_latent import evans_simplify
    from y0.dsl import Variable

    g = gg.to_nx(gd)
    k = rng.randint(0, max(0, len(gd["nodes"]) - 2))
    lat = rng.sample(sorted(gd["nodes"]), k)
    kernel.LOG.reset_case({"graph": gd, "latents": lat})
    lv = [Variable(x) for x in lat]
    form = sum(map(ord, gg.key(gd) + "".join(lat))) % 6
    arg = (None if not lat else lv if form == 0 else set(lv) if form == 1 else tuple(lv) if form == 2 else
           frozenset(lv) if form == 3 else (v for v in lv) if form == 4 else (lv[0] if len(lv) == 1 else lv))
    kw = {"tag": "latent_flag"} if form % 2 else {}
    try:
        evans_simplify(g, latents=arg, **kw)
    except Exception as e:  # noqa: BLE001
        kernel.violation(PROP, "total", f"evans_simplify raised {type(e).__name__}: {e} on {gd} latents {lat}",
                         case={"graph": gd, "latents": lat})
    ctx.case("ev|" + gg.key(gd) + "|" + ",".join(lat), bool(lat) and bool(gd["bi"] or gd["di"]),
             sample={"graph": gd, "latents": lat})


def run_taheri(ctx, dd, rng):
    """taheri_design_dag enumerates latent configurations, simplifies each and runs ID; each verdict is compared
    with the Tian-Pearl reference on the latent projection of that configuration."""
    import networkx as nx
    from y0.algorithm.taheri_design import taheri_design_dag
    from y0.dsl import Variable

    g = nx.DiGraph()
    # the DAG may come with latent marks from an earlier use (set_latent, hand-set data): the design enumerates its own
    # configurations and must not be influenced by them
    pre = sum(map(ord, "".join(dd["nodes"]) + "".join(map("".join, dd["edges"])))) % 3
    for i_, n in enumerate(dd["nodes"]):
        if pre == 0:
            g.add_node(Variable(n), **{TAG: False})
        elif pre == 1:
            g.add_node(Variable(n), **{TAG: bool(i_ % 2)})
        else:
            g.add_node(Variable(n))
    for u, v in dd["edges"]:
        g.add_edge(Variable(u), Variable(v))
    kernel.count(f"C16:taheri-dag-premarked:{('all-false', 'some-true', 'unmarked')[pre]}")
    if len(dd["nodes"]) < 3:
        return
    a, b = rng.sample(sorted(dd["nodes"]), 2)
    ref_order = RG.make([Variable(n) for n in dd["nodes"]], [(Variable(u), Variable(v)) for u, v in dd["edges"]])
    if Variable(b) not in ref_order.descendants_inclusive({Variable(a)}):
        a, b = b, a
    kernel.LOG.reset_case({"dag": dd, "cause": a, "effect": b})
    try:
        results = taheri_design_dag(g, a, b, tag=TAG)
    except Exception as e:  # noqa: BLE001
        kernel.count(f"C16:taheri-raised-{type(e).__name__}")
        return
    nodes0 = {Variable(n) for n in dd["nodes"]}
    edges0 = {(Variable(u), Variable(v)) for u, v in dd["edges"]}
    for r in results:
        lat = set(r.latents)
        proj = latent_projection(nodes0, edges0, lat)
        want = identifiable(proj, {Variable(a)}, {Variable(b)})
        kernel.count("C16:taheri-verdicts-compared")
        if bool(r.identifiable) != want:
            kernel.violation(PROP, "identifiability-preserved", f"taheri design on {dd} with latents "
                             f"{sorted(map(str, lat))}: y0 says identifiable={r.identifiable} for P({b}|do({a})), the "
                             f"reference on the latent projection says {want}", case={"dag": dd, "cause": a, "effect": b})


def run_taheri_admg(ctx, gd, rng, pair=None):
    """taheri_design_admg: the same enumeration started from an ADMG (its bidirected edges are fixed latents)."""
    from y0.algorithm.taheri_design import taheri_design_admg
    from y0.dsl import Variable

    if len(gd["nodes"]) < 3:
        return
    g = gg.to_nx(gd)
    a, b = pair or rng.sample(sorted(gd["nodes"]), 2)
    ref = gg.to_rg(gd)
    if not pair and Variable(b) not in ref.descendants_inclusive({Variable(a)}):
        a, b = b, a
    kernel.LOG.reset_case({"graph": gd, "cause": a, "effect": b, "taheri": "admg"})
    with kernel.quiet():
        dag = g.to_latent_variable_dag(tag=TAG)
    nodes0, edges0 = set(dag.nodes()), set(dag.edges())
    fixed = {n for n, a_ in dag.nodes(data=True) if a_.get(TAG)}  # the latents standing for the bidirected edges
    form = sum(map(ord, gg.key(gd))) % 2
    try:
        results = taheri_design_admg(g, a if form else Variable(a), b if form else Variable(b), tag=TAG)
    except Exception as e:  # noqa: BLE001
        kernel.count(f"C16:taheri-admg-raised-{type(e).__name__}")
        return
    for r in results:
        lat = set(r.latents) | fixed  # Result.latents lists the induced latents only
        if not lat <= nodes0:
            kernel.count("C16:taheri-admg-latents-outside-the-lvdag")
            continue
        proj = latent_projection(nodes0, edges0, lat)
        if Variable(a) not in proj.V or Variable(b) not in proj.V or not proj.is_acyclic():
            continue
        want = identifiable(proj, {Variable(a)}, {Variable(b)})
        kernel.count("C16:taheri-verdicts-compared")
        kernel.count("C16:taheri-admg-verdicts-compared")
        if bool(r.identifiable) != want:
            kernel.violation(PROP, "identifiability-preserved", f"taheri_design_admg on {gd} with latents "
                             f"{sorted(map(str, lat))}: y0 says identifiable={r.identifiable} for P({b}|do({a})), the "
                             f"reference on the latent projection says {want}",
                             case={"graph": gd, "cause": a, "effect": b, "taheri": "admg"})


def run_shard(ctx):
    gg.ALLOW_ODD = True  # node names that are not Python identifiers are node names like any other
    from .. import mon_graph

    install()
    rng = ctx.rng
    idx = 0
    for n in ((1, 2, 3) if ctx.tier == "quick" else (1, 2, 3, 4)):
        for gd in gg.all_admgs(n):
            idx += 1
            if ctx.mine(idx):
                run_roundtrip(ctx, gd)
    for i in range(ctx.share({"quick": 1500, "thorough": 40000}[ctx.tier])):
        gd = gg.random_admg(rng, rng.randint(3, 7))
        run_roundtrip(ctx, gd)
        if i % 4 == 1 and gd["bi"]:
            gd2_, opts_ = colliding_names(gd, rng)
            run_roundtrip(ctx, gd2_, opts=opts_)
        if i % 3 == 0:
            run_evans(ctx, gd, rng)
    for i in range(ctx.share({"quick": 15000, "thorough": 120000}[ctx.tier])):
        run_dag(ctx, random_lvdag(rng), rng, check_sep=(i % 3 == 0))
    # larger DAGs (10..14 nodes): the reference projection and Bayes ball are set algebra and do not mind the size
    for i in range(ctx.share({"quick": 800, "thorough": 12000}[ctx.tier])):
        run_dag(ctx, random_lvdag(rng, rng.randint(10, 14)), rng, check_sep=(i % 4 == 0))
    for i in range(ctx.share({"quick": 200, "thorough": 4000}[ctx.tier])):
        gd = gg.random_admg(rng, rng.randint(9, 13), hostile=rng.choice(["none", "isolated", "bionly", "bow", "bichain"]),
                            p_di=rng.choice((0.15, 0.3)), p_bi=rng.choice((0.1, 0.25)))
        run_roundtrip(ctx, gd)
        if i % 2 == 0:
            run_evans(ctx, gd, rng)
    # each rule on its own, on raw (un-transformed) LV-DAGs with nested latents
    import y0.algorithm.simplify_latent as sl_

    for i in range(ctx.share({"quick": 3000, "thorough": 40000}[ctx.tier])):
        dd = nested_latents(rng) if i % 3 == 0 else random_lvdag(rng)
        g = build_dag(dd)
        rule = ("remove_widow_latents", "transform_latents_with_parents", "remove_unidirectional_latents",
                "remove_redundant_latents")[i % 4]
        kernel.LOG.reset_case({"dag": dd, "rule": rule})
        try:
            if i % 8 >= 4:
                sl_.transform_latents_with_parents(g, tag=TAG)  # make the latents exogenous first
            getattr(sl_, rule)(g, tag=TAG)
        except Exception as e:  # noqa: BLE001
            kernel.violation(PROP, "total", f"{rule} raised {type(e).__name__}: {e} on {dd}", case={"dag": dd, "rule": rule})
        ctx.case(f"rule|{rule}|{dag_key(dd)}", any(v in dd["latent"] for _, v in dd["edges"]))
    for i in range(ctx.share({"quick": 400, "thorough": 3000}[ctx.tier])):
        dd = random_lvdag(rng, rng.randint(3, 5))
        run_taheri(ctx, dd, rng)
    for i in range(ctx.share({"quick": 800, "thorough": 6000}[ctx.tier])):
        # (a third of them with node names that look like the latents the conversion makes up: u_0, u_1, T_1)
        run_taheri_admg(ctx, gg.random_admg(rng, rng.randint(3, 5), p_bi=rng.choice((0.1, 0.25)),
                                            hostile=("names_prefixed" if i % 3 == 0 else None)), rng)


def replay(case):
    import random

    install()

    class _C:
        def case(self, *a, **k):
            pass

    rng = random.Random(0)
    if "dag" in case and isinstance(case["dag"], dict) and "observed" in case["dag"]:
        # the monitor's own record of the DAG it was handed (also the edited DAGs of the histories)
        d = case["dag"]
        case = dict(case, dag={"nodes": list(d["observed"]) + list(d["latent"]), "latent": list(d["latent"]),
                               "edges": [e.split("->") for e in d["edges"]]})
    if "dag" in case and isinstance(case["dag"], dict) and "edges" in case["dag"] and "nodes" in case["dag"]:
        run_dag(_C(), case["dag"], rng, check_sep=True)
    elif case.get("taheri") == "admg":
        gd = case["graph"]
        run_taheri_admg(_C(), {"nodes": gd["nodes"], "di": gd["di"], "bi": gd["bi"]}, rng, pair=(case["cause"], case["effect"]))
    elif "graph" in case and "latents" in case:
        from y0.algorithm.simplify_latent import evans_simplify
        from y0.dsl import Variable

        gd = case["graph"]
        evans_simplify(gg.to_nx(gd), latents=[Variable(x) for x in case["latents"]] or None)
    elif "graph" in case:
        gd = case["graph"]
        if isinstance(gd.get("di", [None])[0] if gd.get("di") else None, str):
            gd = {"nodes": gd["nodes"], "di": [e.split("->") for e in gd["di"]], "bi": [e.split("<->") for e in gd["bi"]]}
        run_roundtrip(_C(), gd, opts=case.get("opts"))


def install_for_suite():
    install()
