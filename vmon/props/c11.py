"""C11 — canonical form is a true normal form (DESIGN §4 C11)."""

from __future__ import annotations

import json
import os
import random
import subprocess
import sys

from .. import VERIF_DIR, kernel, mon_dsl
from ..gen import exprs as ge
from . import c10

PROP = "C11"
RULE = (
    "cases = C10's expression corpus plus targeted classes (products whose factors share their first child, "
    "fractions whose denominator canonicalises to One or to a Fraction, sums collapsing to One inside products, "
    "mixed population/plain products, multi-subscript probabilities). Monitors: post-condition on the real "
    "canonicalize applying it a second time (object and text equality); driver comparing canon(pi(e),o) with "
    "canon(e,o) for random presentation permutations pi (factor order, product nesting, variable order on either "
    "side of the bar, range order); offline checker over the canonical texts printed by 4 sub-processes with "
    "PYTHONHASHSEED in {0,1,2,3,5,9,14,42,123,random,random} for the same seeded corpus. non-trivial = expression has a product with >=2 "
    "factors or a probability with >=2 variables on one side; distinct by constructor source."
)
ASSUMPTIONS = ["presentation permutations are those of the statement: factor order, product nesting, variable order "
               "on either side of the conditioning bar (and the order in which a range set was written)"]
MIN_NONTRIVIAL = {"quick": 1000, "thorough": 20000}
REQUIRED = ["eval:canonicalize", "C11:idempotence-checked", "C11:permutation-pairs", "C11:hashseed-lines-compared"]
TIMEOUT = {"quick": 900, "thorough": 7200}

OPTS = c10.OPTS
HASH_SEEDS = ("0", "1", "2", "3", "5", "9", "14", "42", "123", "random", "random")


def targeted(rng):
    """ASTs of the tie / re-flattening classes."""
    names = rng.sample(ge.NAMES, 5)
    a, b, c, d, e = names
    v = lambda n, star=None, ivs=(): [n, star, [list(i) for i in ivs]]  # noqa: E731
    k = rng.randrange(22)
    if k >= 19:  # factors that differ ONLY in the own value of a (counterfactual) variable, as child or as condition
        ivs = [[b, rng.random() < 0.3]] + ([[c, False]] if rng.random() < 0.4 else [])
        stars = rng.sample([None, True, False], rng.choice([2, 3]))
        if k == 19:
            fs = [["P", None, [v(a, st, ivs)], []] for st in stars]
        elif k == 20:
            fs = [["P", None, [v(d)], [v(a, st, ivs)]] for st in stars]
        else:
            fs = [["P", None, [v(a, st, [])], [v(e)]] for st in stars]
        return ["prod", fs + ([["P", None, [v(e)], []]] if rng.random() < 0.5 else [])]
    if k >= 16:  # one name in several worlds inside ONE probability, some worlds with two or three joint subscripts
        def world(pool):
            return [[x, rng.random() < 0.3] for x in rng.sample(pool, rng.choice([1, 2, 2, 3]))]

        pool = [b, c, d, e]
        ch = [v(a, rng.choice([None, None, True, False]), world(pool)) for _ in range(rng.choice([2, 2, 3]))]
        seen, uniq = set(), []
        for x in ch:
            key = (x[1], tuple(sorted(map(tuple, x[2]))))
            if key not in seen:
                seen.add(key)
                uniq.append(x)
        pa = [v(b)] if rng.random() < 0.4 and all(b not in [i[0] for i in x[2]] for x in uniq) else []
        if k == 16:
            return ["P", None, uniq, pa]
        if k == 17 and len(uniq) >= 2:
            return ["P", None, [v(c)] if all(c not in [i[0] for i in x[2]] for x in uniq) else [v(a)], uniq]
        return ["prod", [["P", None, uniq, pa], ["P", None, [v(e)], []]]]
    if k >= 14:  # compound fractions over multisets of a few atoms (repeated factors on both sides)
        atoms = [["P", None, [v(a)], []], ["P", None, [v(b)], [v(a)]], ["P", None, [v(c)], []], ["P", None, [v(d)], []]]
        return ge.rand_repeated_fraction(rng, atoms[: rng.choice([2, 3, 4])])
    if k == 12:  # sibling fractions / sums of fractions with one numerator and different denominators
        num = ["P", None, [v(a), v(b)], []]
        dens = [["P", None, [v(a)], []], ["P", None, [v(b)], []], ["P", None, [v(b)], [v(a)]], ["one"]]
        rng.shuffle(dens)
        fr = [["frac", num if rng.random() < 0.7 else ["one"], d_] for d_ in dens[: rng.choice([2, 3])]]
        if rng.random() < 0.4:
            fr = [["sum", [c], ["prod", [f, ["P", None, [v(c)], []]]]] for f in fr]
        return ["prod", fr + ([["P", None, [v(d)], []]] if rng.random() < 0.5 else [])]
    if k == 13:  # factors that differ only in their population tag
        dist = ([v(a)], [v(b)])
        return ["prod", [["P", pop, dist[0], dist[1]] for pop in rng.sample(["π1", "π2", "Pi3", None], rng.choice([2, 3]))]]
    if k == 9:  # nested products/fractions over a small pool of atoms (coinciding parts after multiplying out)
        atoms = [["P", None, [v(a)], []], ["P", None, [v(b)], [v(a)]], ["sum", [c], ["P", None, [v(c), v(d)], []]]]
        return ge.rand_fracnest(rng, atoms[: rng.choice([2, 3])], rng.choice([2, 3, 3]))
    if k == 10:  # ((x*y)/x)/y and relatives
        x, y = ["P", None, [v(a)], []], ["P", None, [v(b)], []]
        return rng.choice([["frac", ["frac", ["prod", [x, y]], x], y], ["frac", ["frac", x, y], ["frac", x, y]],
                           ["frac", ["prod", [["frac", x, y], y]], x], ["frac", ["frac", ["prod", [x, y]], y], ["frac", x, ["one"]]]])
    if k == 11:  # sums over one summand with different, multi-variable ranges
        # (a conditional or a product as the summand: a sum over a plain joint would be simplified away)
        body = rng.choice([["P", None, [v(a)], [v(b), v(c), v(d)]], ["P", None, [v(a), v(b)], [v(c), v(d)]],
                           ["prod", [["P", None, [v(a)], [v(b), v(c)]], ["P", None, [v(b)], [v(d)]]]]])
        rs = [[b, c], [b], [c, d], [b, c, d], [d]]
        rng.shuffle(rs)
        return ["prod", [["sum", sorted(r), body] for r in rs[: rng.choice([2, 3])]]]
    if k == 0:  # equal first child
        return ["prod", [["P", None, [v(a)], [v(b)]], ["P", None, [v(a)], [v(c)]], ["P", None, [v(a), v(d)], []]]]
    if k == 1:  # 1/(1/x)
        return ["frac", ["one"], ["frac", ["one"], ["P", None, [v(a)], []]]]
    if k == 2:  # x / ((x*y)/y)
        pa, pb = ["P", None, [v(a)], []], ["P", None, [v(b)], []]
        return ["frac", pa, ["frac", ["prod", [pa, pb]], pb]]
    if k == 3:  # sum collapsing to one inside a product
        return ["prod", [["sum", [a], ["P", None, [v(a)], []]], ["P", None, [v(b)], [v(c)]], ["P", None, [v(b)], [v(d)]]]]
    if k == 4:  # mixed population/plain with equal children
        return ["prod", [["P", "π1", [v(a)], [v(b)]], ["P", None, [v(a)], [v(b)]], ["P", "π2", [v(a)], [v(c)]]]]
    if k == 5:  # several subscripts
        ivs = [[b, False], [c, True], [d, False]]
        rng.shuffle(ivs)
        return ["prod", [["P", None, [v(a, None, ivs)], []], ["P", None, [v(a, None, ivs[:2])], [v(e, None, ivs[:2])]]]]
    if k == 6:  # nested fractions in products
        pa, pb, pc = ["P", None, [v(a)], []], ["P", None, [v(b)], [v(a)]], ["P", None, [v(c)], []]
        return ["prod", [["frac", pa, pc], ["frac", pb, ["frac", pa, pc]]]]
    if k == 7:  # sums with equal keys
        return ["prod", [["sum", [b], ["P", None, [v(a), v(b)], []]], ["sum", [c], ["P", None, [v(a), v(c)], []]],
                         ["P", None, [v(a)], []]]]
    return ["frac", ["prod", [["P", None, [v(a)], [v(b)]], ["P", None, [v(b)], []]]],
            ["prod", [["P", None, [v(b)], []], ["sum", [a], ["P", None, [v(a), v(c)], []]]]]]


def _nontrivial(ast):
    t = ast[0]
    if t == "P":
        return len(ast[2]) >= 2 or len(ast[3]) >= 2
    if t == "prod":
        return True
    if t == "sum":
        return _nontrivial(ast[2])
    if t == "frac":
        return _nontrivial(ast[1]) or _nontrivial(ast[2])
    return False


def classify_perm(c1, c2):
    return None


def run_perm(ctx, ast, rng):
    from y0.mutate import canonicalize

    try:
        e = ge.build_raw(ast)
    except Exception:  # noqa: BLE001
        return
    o = c10.ordering_for(e, rng)
    kernel.LOG.reset_case({"expr": ge.to_src(e), "ordering": mon_dsl._ord(o)})
    try:
        c1 = canonicalize(e, o)
    except Exception as ex:  # noqa: BLE001
        kernel.count(f"C11:canonicalize-raised-{type(ex).__name__}")
        return
    ok = True
    for _ in range(3):
        past = ge.permute(ast, rng)
        try:
            pe = ge.build_raw(past)
            c2 = canonicalize(pe, o)
        except Exception as ex:  # noqa: BLE001
            kernel.violation(PROP, "permutation-invariant", f"canonicalising a presentation permutation of {e} raised "
                             f"{type(ex).__name__}: {ex}", case={"expr": ge.to_src(e), "perm": json.dumps(past),
                                                                  "ordering": mon_dsl._ord(o)})
            continue
        kernel.count("C11:permutation-pairs")
        if c1 != c2 or str(c1) != str(c2):
            ok = False
            kernel.violation(
                PROP, "permutation-invariant",
                f"canon({e}) = {c1} but canon of its presentation permutation {pe} = {c2} (ordering {mon_dsl._ord(o)})",
                witness={"first": str(c1), "second": str(c2)},
                case={"expr": ge.to_src(e), "perm": ge.to_src(pe), "ordering": mon_dsl._ord(o)},
                mech=classify_perm(c1, c2))
            break
    ctx.case(ge.to_src(e), _nontrivial(ast), sample={"expr": str(e), "canonical": str(c1), "ordering": mon_dsl._ord(o),
                                                     "permutation_invariant": ok})


def run_long(ctx, rng):
    """Long products (16..22 distinct factors) in structured orders, and pairs of sums whose long inner products share
    their first factors: object-level presentations of one product must have one canonical form."""
    from y0.dsl import P, Product, Sum, Variable
    from y0.mutate import canonicalize

    names = rng.sample([n for n in ge.NAMES if n.isidentifier()], 7)
    V = [Variable(n) for n in names]
    pool = []
    for i, c in enumerate(V):
        others = [x for x in V if x != c]
        for k in (0, 1, 2, 3):
            for _ in range(2):
                pa = tuple(sorted(rng.sample(others, k), key=str))
                pool.append(P(c | pa) if pa else P(c))
    atoms = list(dict.fromkeys(pool))
    rng.shuffle(atoms)
    atoms = atoms[: rng.randint(16, 22)]
    if len(atoms) < 16:
        return
    base = canonicalize(Product(tuple(atoms)))
    srt = list(base.expressions) if isinstance(base, Product) else [base]
    pairs = [srt[i:i + 2] for i in range(0, len(srt), 2)]
    rng.shuffle(pairs)
    half = len(srt) // 2
    arrangements = {
        "reversed": srt[::-1],
        "pair-blocks": [x for p_ in pairs for x in p_],
        "rotated": srt[2:] + srt[:2],
        "interleaved": [x for ab in zip(srt[:half], srt[half:]) for x in ab] + srt[2 * half:],
        "swapped-ends": [srt[-1]] + srt[1:-1] + [srt[0]],
    }
    kernel.LOG.reset_case({"long_product": [str(a) for a in srt]})
    for name, arr in arrangements.items():
        forms = {"flat": Product(tuple(arr)),
                 "nested": Product((Product(tuple(arr[:3])), Product(tuple(arr[3:])))),
                 "under-sum": None}
        for fname, e in forms.items():
            if e is None:
                continue
            kernel.count("C11:long-product-presentations")
            try:
                c2 = canonicalize(e)
            except Exception as ex:  # noqa: BLE001
                kernel.violation(PROP, "permutation-invariant", f"canonicalising a {len(arr)}-factor product ({name}, {fname}) "
                                 f"raised {type(ex).__name__}: {ex}", case={"expr": ge.to_src(e)})
                continue
            if c2 != base or str(c2) != str(base):
                kernel.violation(PROP, "permutation-invariant", f"a product of {len(arr)} factors written in {name} order "
                                 f"({fname}) canonicalises to {str(c2)[:300]} but in another order to {str(base)[:300]}",
                                 case={"expr": ge.to_src(e), "perm": ge.to_src(Product(tuple(srt)))})
                break
    # two sums over one range whose inner products share their first five factors (in canonical order) and differ later
    if len(srt) >= 8:
        r = Variable(names[0])
        in1, in2 = srt[:5] + [srt[5]], srt[:5] + [srt[6]]
        s1, s2 = Sum(Product(tuple(in1)), frozenset([r])), Sum(Product(tuple(in2)), frozenset([r]))
        extra = srt[7]
        kernel.count("C11:long-sum-pairs")
        try:
            c_a, c_b = canonicalize(Product((s1, s2, extra))), canonicalize(Product((extra, s2, s1)))
            if c_a != c_b or str(c_a) != str(c_b):
                kernel.violation(PROP, "permutation-invariant", f"two sums with long inner products: canon(S1*S2*x) = "
                                 f"{str(c_a)[:300]} but canon(x*S2*S1) = {str(c_b)[:300]}",
                                 case={"expr": ge.to_src(Product((s1, s2, extra))), "perm": ge.to_src(Product((extra, s2, s1)))})
        except Exception as ex:  # noqa: BLE001
            kernel.count(f"C11:long-sum-pairs-raised-{type(ex).__name__}")
    ctx.case("long|" + "|".join(str(a) for a in srt)[:400], True, sample={"factors": len(srt)})


def corpus(seed, n):
    """The seeded corpus of the hash-seed sweep: independent of PYTHONHASHSEED by construction
    (string-seeded RNG, list-based ASTs)."""
    rng = random.Random(f"c11-corpus:{seed}")
    out = []
    for i in range(n):
        out.append(targeted(rng) if i % 4 == 0 else ge.rand_expr_ast(rng, OPTS, max_depth=4))
    return out


def emit(seed, n):
    """Child mode of the sweep: print one line per corpus element: canonical text."""
    from y0.mutate import canonicalize

    for i, ast in enumerate(corpus(seed, n)):
        try:
            e = ge.build_raw(ast)
            c = canonicalize(e)
            print(json.dumps([i, str(c), str(canonicalize(c)) == str(c)]))
        except Exception as ex:  # noqa: BLE001
            print(json.dumps([i, f"!{type(ex).__name__}", True]))


def sweep(ctx, n):
    env = dict(os.environ)
    env["PYTHONPATH"] = VERIF_DIR + os.pathsep + env.get("PYTHONPATH", "")
    env.pop("Y0_VERIF", None)
    outs = {}
    for hs in HASH_SEEDS:
        env["PYTHONHASHSEED"] = hs
        try:
            p = subprocess.run([sys.executable, "-m", "vmon.props.c11", "--emit", str(ctx.seed * 1000 + ctx.shard), str(n)],
                               cwd=VERIF_DIR, env=env, capture_output=True, text=True, timeout=600)
        except subprocess.TimeoutExpired:
            kernel.count("C11:hashseed-run-timeout")
            return
        if p.returncode != 0:
            kernel.monitor_error("c11.sweep", RuntimeError(p.stderr[-500:]))
            return
        outs[f"{hs}#{len(outs)}"] = [json.loads(l) for l in p.stdout.splitlines() if l.startswith("[")]
    base = outs["0#0"]
    asts = corpus(ctx.seed * 1000 + ctx.shard, n)
    for hs, lines in outs.items():
        if len(lines) != len(base):
            kernel.monitor_error("c11.sweep", RuntimeError(f"line counts differ for PYTHONHASHSEED={hs}"))
            return
        for (i, text, _), (_, text0, _) in zip(lines, base):
            kernel.count("C11:hashseed-lines-compared")
            if text != text0:
                e = ge.build_raw(asts[i])
                kernel.violation(PROP, "hash-seed-independent",
                                 f"canonical text of {e} is {text0!r} under PYTHONHASHSEED=0 but {text!r} under "
                                 f"PYTHONHASHSEED={hs}", case={"expr": ge.to_src(e), "ordering": None})
                return


def run_shard(ctx):
    mon_dsl.install_canon()
    rng = ctx.rng
    n = ctx.share({"quick": 5000, "thorough": 150000}[ctx.tier])
    for i in range(n):
        ast = targeted(rng) if i % 5 == 0 else ge.rand_expr_ast(rng, OPTS, max_depth=4)
        run_perm(ctx, ast, rng)
    for _ in range(ctx.share({"quick": 320, "thorough": 6000}[ctx.tier])):
        run_long(ctx, rng)
    if ctx.shard < {"quick": 2, "thorough": 8}[ctx.tier]:
        sweep(ctx, {"quick": 1500, "thorough": 8000}[ctx.tier])


def replay(case):
    mon_dsl.install_canon()
    from y0.dsl import Variable
    from y0.mutate import canonicalize

    e = ge.from_src(case["expr"])
    o = case.get("ordering")
    o = [Variable(n) for n in o] if o is not None else None
    c1 = canonicalize(e, o)
    if case.get("perm") and not case["perm"].startswith("["):
        pe = ge.from_src(case["perm"])
        c2 = canonicalize(pe, o)
        if c1 != c2 or str(c1) != str(c2):
            kernel.violation(PROP, "permutation-invariant", f"canon({e}) = {c1} but canon({pe}) = {c2}",
                             case=case, mech=classify_perm(c1, c2))


if __name__ == "__main__":
    if len(sys.argv) >= 4 and sys.argv[1] == "--emit":
        emit(int(sys.argv[2]), int(sys.argv[3]))


def install_for_suite():
    mon_dsl.install_canon()
